"""Common examination of one pipeline case: reference vs Polars vs SQLite."""
from __future__ import annotations

import re
import traceback

from . import build, oracle, refsem
from .findings import lineage
from .refsem import OutOfDomain, RefBug, RefReject
from .runner import Outcome

DATA_VERBS = {"mutate", "filter", "arrange", "slice_head", "summarize", "join", "union"}


def exc_name(ex):
    return type(ex).__name__


def reraise_control(ex):
    """Engine panics (pyo3 PanicException) derive from BaseException; control-flow exceptions
    must still propagate."""
    from .runner import CaseTimeout

    if isinstance(ex, (KeyboardInterrupt, SystemExit, GeneratorExit, CaseTimeout)):
        raise ex


def _no_col(e):
    from .ir import walk_expr

    return not any(x[0] == "col" for x in walk_expr(e))


def _frame_level_aggregate(e):
    """Every column reference of the expression sits below an aggregate without partition_by."""
    from .ir import AGG_OPS

    def ok(nd):
        if nd[0] == "col":
            return False
        if nd[0] == "lit":
            return True
        if nd[0] == "fn":
            if nd[1] in AGG_OPS and not (len(nd) > 3 and nd[3].get("partition_by")):
                return True
            return all(ok(a) for a in nd[2]) and not (len(nd) > 3 and nd[3])
        if nd[0] == "cast":
            return ok(nd[1])
        if nd[0] == "case":
            return all(ok(c) and ok(v) for c, v in nd[1]) and (nd[2] is None or ok(nd[2]))
        return False

    return ok(e) and not _no_col(e)


def _scalar_shapes(case):
    """Shapes that make Polars 1.44 produce a length-1 series where a column is expected
    (engine bugs, DESIGN §4.15): literal-only subexpressions that the engine keeps as scalars -
    a when/then chain with a literal-only value or literal-only conditions, a function call
    whose arguments are all literals, `x.is_in()` without values, and constant columns
    (defined by a literal-only expression), which the optimizer folds back into a scalar."""
    from .ir import step_exprs, walk_expr

    extra = []
    if isinstance(case.get("expr"), dict) and "expr" in case["expr"]:
        extra = [{"verb": "expr", "exprs": [case["expr"]["expr"]]}]  # C20: an expression exported on its own
    for s in list(case["steps"]) + extra:
        if s["verb"] in ("mutate", "summarize"):
            if any(_no_col(e) for _, e in s["items"]):
                return True
        if s["verb"] == "join" and s.get("cross"):
            return True  # a cross join with a one-row operand broadcasts that operand's columns as scalars
        if s["verb"] == "mutate" and any(_frame_level_aggregate(e) for _, e in s["items"]):
            return True  # one value for the whole frame: Polars keeps such a column as a scalar, too
        for e in (s["exprs"] if s["verb"] == "expr" else step_exprs(s)):
            for nd in walk_expr(e):
                if nd[0] == "case":
                    vals = [v for _, v in nd[1]] + ([nd[2]] if nd[2] is not None else [])
                    if any(_no_col(v) for v in vals) or all(_no_col(c) for c, _ in nd[1]):
                        return True
                if nd[0] == "map":
                    return True
                if nd[0] == "fn" and nd[2] and all(_no_col(a) for a in nd[2]):
                    return True
                if nd[0] == "fn" and nd[1] in ("fill_null", "coalesce", "hmax", "hmin", "hsum", "hany", "hall", "is_in") and nd[2] and _no_col(nd[2][0]):
                    return True  # the literal first argument decides the length of the result
                if nd[0] == "fn" and nd[1] == "is_in" and len(nd[2]) == 1:
                    return True
    return False


def engine_quirk(ex, case, ref=None):
    """Failures that are bugs of the execution engine, not of the library (DESIGN §4.15)."""
    msg = str(ex)
    if exc_name(ex) in ("InvalidOperationError", "ShapeError") and (
            "doesn't match the DataFrame height" in msg or "must have same length as DataFrame" in msg
            or "output length of `map`" in msg or "produced different length" in msg
            or "produces broadcasting column" in msg):
        if _scalar_shapes(case):
            return "polars_scalar_broadcast"
    if exc_name(ex) == "InvalidOperationError" and ("`clip` only supports physical numeric types" in msg
                                                    or "can only be used on numeric types" in msg) and (
            any(len(t["rows"]) == 0 for t in case["tables"]) or (ref is not None and any(t.n == 0 for t in ref.vars.values()))):
        return "polars_empty_frame_null_dtype"  # the clipped column of an empty result is Null-typed
    if exc_name(ex) in ("InvalidOperationError", "PanicException", "SchemaError", "ComputeError") and (
            "null" in msg or "Null" in msg) and (any(len(t["rows"]) == 0 for t in case["tables"]) or (
                ref is not None and any(t.n == 0 for t in ref.vars.values()))):
        return "polars_empty_frame_null_dtype"  # typing of all-null results over empty frames
    if exc_name(ex) == "InvalidOperationError" and "conversion from" in msg and "failed" in msg and any(
            d not in ("int64", "float64", "bool", "str", "date", "datetime") for t in case["tables"] for _, d in t["cols"]):
        return "sized_int_overflow"  # out of domain (DESIGN §4.1 / §4.11): value does not fit a sized column type
    if exc_name(ex) == "OperationalError" and ("string_agg" in msg or 'near "ORDER": syntax error' in msg):
        from .ir import has_op, step_exprs

        exprs = [e for s in case.get("steps", []) for e in step_exprs(s)]
        if isinstance(case.get("expr"), dict) and "expr" in case["expr"]:
            exprs.append(case["expr"]["expr"])  # C20's stand-alone expression
        if any(has_op(e, {"str.join"}) for e in exprs):
            # the SQLite library of this sandbox predates string_agg / ORDER BY inside aggregates (3.44)
            return "sqlite_without_string_agg"
    if exc_name(ex) == "OperationalError" and "ON clause references tables to its right" in msg and any(
            s.get("verb") == "join" and s.get("how") == "full" for s in case.get("steps", [])):
        # SQLite 3.40: a (valid) statement whose subquery holds a FULL OUTER JOIN inside a compound SELECT is rejected
        # by the query flattener (same engine bug family as DESIGN 4.15 h)
        return "sqlite_full_join_in_compound_subquery"
    if exc_name(ex) == "DataTypeError" and "NullType" in msg and ref is not None and any(
            t.n == 0 for t in ref.vars.values()) and any(
            s.get("verb") in ("rematerialize", "collect") for s in case.get("steps", [])):
        # a frame materialised from an empty result carries Null-typed columns (c); the library then rightly refuses
        # e.g. a Null-typed filter predicate
        return "polars_empty_frame_null_dtype"
    if exc_name(ex) in ("InvalidOperationError", "SchemaError", "ComputeError") and re.search(r"[Ll]ist(\(| type)", msg) and any(
            s.get("verb") == "summarize" for s in case.get("steps", [])):
        return "polars_agg_returns_list"  # (j): a later operation trips over the list an aggregation returned
    if exc_name(ex) == "OperationalError" and "parser stack overflow" in msg:
        return "sqlite_parser_stack"  # expression nesting beyond the SQLite parser's stack (thorough-tier depths)
    if exc_name(ex) == "InvalidOperationError" and "conversion from" in msg and "failed" in msg and (
            "NaN" in msg or "inf" in msg):
        return "nan_or_inf_to_int"
    if exc_name(ex) == "InvalidOperationError" and "conversion from `f64` to `i64` failed" in msg:
        m = re.search(r"values: \[([^\]]*)\]", msg)
        nums = []
        for tok in (m.group(1).split(",") if m else []):
            try:
                nums.append(float(tok.strip().replace("…", "")))
            except ValueError:
                pass
        if nums and all(abs(x) >= 9.2e18 for x in nums):
            # beyond the Int64 range (also inside a when/then branch that no row takes: Polars evaluates every branch)
            return "float_to_int_overflow"
    if exc_name(ex) == "InvalidOperationError" and "conversion from `f64` to `i64` failed" in msg and ref is not None:
        from .refsem import UNDEF

        if any(v is UNDEF for t in ref.vars.values() for col in t.data.values() for v in col):
            # the reference has an out-of-domain cell (here: a float beyond the Int64 range); Polars refuses the
            # strict cast for the whole column
            return "float_to_int_overflow"  # NaN / infinity are outside the value domain (DESIGN 4.2); Polars refuses the cast
    if exc_name(ex) == "InvalidOperationError" and "joining with repeated key names" in msg:
        return "polars_repeated_join_key"  # Polars limitation on join keys (join docstring note)
    return None


def polars_null_compare_in_agg_quirk(case):
    """Polars 1.44 lowers a comparison with a null literal (`x == None`, also inside the library's is_in) to
    `null.repeat(len())`; inside group_by().agg() / over() that is not aligned with the group's rows and e.g. a
    sort_by by such a key mixes values of different groups (reproduced with plain Polars, DESIGN 4.15 k).  Shape: an
    aggregate / window function whose arguments or context arguments contain a comparison with a null literal."""
    from .ir import AGG_OPS, WIN_OPS, step_exprs, walk_expr

    def has_null_cmp(e):
        return any(nd[0] == "fn" and nd[1] in ("eq", "ne", "lt", "le", "gt", "ge", "is_in") and any(
            a[0] == "lit" and a[1] is None for a in nd[2]) for nd in walk_expr(e))

    exprs = [e for s in case.get("steps", []) for e in step_exprs(s)]
    if isinstance(case.get("expr"), dict) and "expr" in case["expr"]:
        exprs.append(case["expr"]["expr"])
    for e in exprs:
        for nd in walk_expr(e):
            if nd[0] == "fn" and nd[1] in (AGG_OPS | WIN_OPS) and has_null_cmp(nd):
                return True
    return False


def polars_scalar_in_agg_quirk(case):
    """Polars 1.44 keeps `max_horizontal(lit, when(c).then(lit).otherwise(col))` (any horizontal function with a
    literal argument next to a when/then chain with a literal branch value) as a length-1 scalar when it is evaluated
    inside an aggregation: `df.select(pl.max_horizontal(pl.lit(7), w).sum())` returns 7 for three rows whose row-wise
    maximum is 7 each (reproduced with plain Polars, DESIGN 4.15 l).  Shape: an aggregate / window function whose
    arguments or context arguments contain such a horizontal call, or a horizontal call / fill_null / coalesce / is_in
    whose *first* argument is literal-only (`sum(lit != fill_null(lit, col))` is computed over one row)."""
    from .ir import AGG_OPS, WIN_OPS, step_exprs, walk_expr

    def lit_branch(e):
        return any(nd[0] == "case" and any(_no_col(v) for v in [v for _, v in nd[1]] + ([nd[2]] if nd[2] is not None else []))
                   for nd in walk_expr(e))

    def shape(e):
        return any(nd[0] == "fn" and nd[1] in ("hmax", "hmin", "hsum", "hany", "hall", "coalesce", "fill_null", "is_in") and nd[2]
                   and ((any(_no_col(a) for a in nd[2]) and any(lit_branch(a) for a in nd[2]))
                        or _no_col(nd[2][0]))  # the literal first argument decides the length of the result (a)
                   for nd in walk_expr(e))

    exprs = [e for s in case.get("steps", []) for e in step_exprs(s)]
    if isinstance(case.get("expr"), dict) and "expr" in case["expr"]:
        exprs.append(case["expr"]["expr"])
    return any(nd[0] == "fn" and nd[1] in (AGG_OPS | WIN_OPS) and shape(nd) for e in exprs for nd in walk_expr(e))


def polars_agg_list_quirk(case, df):
    """Polars 1.44: inside group_by().agg() a combination of already aggregated values that contains a when/then over
    literals (the library's floor division / modulo sign correction) is returned as one list per group instead of a scalar
    (`coalesce(len() // 1, len() // 1)` -> [2, 2]).  Engine behaviour (DESIGN 4.15 j): a List column in the result of a
    pipeline with a summarize."""
    import polars as pl

    return any(isinstance(d, pl.List) for d in df.schema.values()) and any(
        s.get("verb") == "summarize" for s in case.get("steps", []))


def sqlite_full_join_quirk(case, rv):
    """SQLite 3.40 (the only executing SQL engine here) returns rows that the WHERE clause excludes when a SELECT with a
    FULL OUTER JOIN and a WHERE is an operand of a compound SELECT inside a subquery (`SELECT * FROM (q UNION ALL q)`
    where q alone and `q UNION ALL q` at top level are correct): engine bug, DESIGN 4.15 (h).  Shape: a union with an
    operand whose lineage has a full join followed by a filter."""
    lin = lineage(case, rv)
    for s in lin:
        if s["verb"] != "union":
            continue
        for side in (s["in"], s["right"]):
            lin_side = lineage(case, side)
            # (the filter may also sit below the join: `SELECT .. FROM (q1 WHERE ..) FULL OUTER JOIN (q2 WHERE ..)` as a
            # compound operand in a subquery returns an all-null row for two empty operands)
            if any(p["verb"] == "join" and p.get("how") == "full" for p in lin_side) and any(
                    p["verb"] == "filter" for p in lin_side):
                return True
    return False


def is_refusal(ex):
    return exc_name(ex) in ("SubqueryError", "NotSupportedError")


def innermost_repo_frame(ex):
    tb = traceback.extract_tb(ex.__traceback__)
    for fr in reversed(tb):
        if "pydiverse/transform" in fr.filename:
            return f"{fr.filename.split('pydiverse/transform/')[-1].replace('_internal/', '')}:{fr.name}"
    # no frame of the library on the stack: the harness called something wrongly
    from .env import HarnessError

    raise HarnessError(f"exception without a library frame: {type(ex).__name__}: {ex}\n"
                       + "".join(traceback.format_exception(ex))[-1500:])


class PipelineRun:
    """Holds everything computed for one case."""

    def __init__(self, case):
        self.case = case
        self.ref = None
        self.built = {}
        self.frames = {}
        self.case2 = case
        self.prefix_quirk = None


def classify_case(case, out: Outcome):
    verbs = [s["verb"] for s in case["steps"]]
    out.classes += sorted({"verb:" + v for v in verbs if v != "source"})
    for t in case["tables"]:
        n = len(t["rows"])
        out.classes.append("rows:0" if n == 0 else "rows:1" if n == 1 else "rows:tall" if n > 100 else "rows:some")
    g = case.get("_gen")
    if g:
        out.classes += ["gen:" + c for c in g.get("classes", [])]
        if g.get("skipped"):
            out.count("gen_skipped_steps", g["skipped"])
        if g.get("gen_rejects"):
            out.count("gen_rejects", g["gen_rejects"])
        for k, v in (g.get("excluded") or {}).items():
            out.count("excluded_by_finding:" + k, v)


def examine_pipeline(case, out: Outcome, *, backends=("polars", "sqlite"), ref_compare=True, differential=False,
                     result_vars=None, localize=True, close=True):
    """Returns PipelineRun. Failures are recorded on `out`."""
    run = PipelineRun(case)
    steps = case["steps"]
    case2 = case
    sql = None
    if "sqlite" in backends:
        try:
            sql = build.build(case, "sqlite", auto_alias=True)
        except Exception as ex:  # builder itself broke
            raise
        run.built["sqlite"] = sql
        if sql.subq:
            out.count("sql_subquery_errors", len(sql.subq))
            out.classes.append("sql:auto_alias")
        if sql.error is not None:
            k, ex = sql.error
            if is_refusal(ex):
                out.count("sql_refused:" + exc_name(ex))
                out.classes.append("sql:refused")
                sql_ok = False
            else:
                out.fail("internal-error", f"sqlite:{sql.steps[k]['verb']}:{exc_name(ex)}:{innermost_repo_frame(ex)}",
                         f"SQLite verb call `{sql.steps[k]['verb']}` raised {exc_name(ex)}: {ex}", step=k)
        case2 = dict(case)
        case2["steps"] = [dict(s) for s in sql.steps]
    run.case2 = case2

    # reference on the (possibly alias-extended) steps
    try:
        run.ref = refsem.run(case2)
    except OutOfDomain as ex:
        out.discard = f"out-of-domain:{str(ex)[:40]}"
        _close(run)
        return run
    except RefReject as ex:
        out.discard = f"ref-reject:{ex.kind}"
        if sql is not None and sql.error is not None and exc_name(sql.error[1]) == ex.kind:
            # the library rejects the pipeline with the exception type the reference expects: agreement
            out.failures = [f for f in out.failures if not (f.kind == "internal-error" and f.key.startswith("sqlite:"))]
            out.count("rejected_like_reference:" + ex.kind)
        _close(run)
        return run

    if "polars" in backends:
        pl = build.build(case2, "polars")
        run.built["polars"] = pl
        if pl.error is not None and case2["steps"][pl.error[0]]["verb"] in ("collect", "rematerialize") and engine_quirk(
                pl.error[1], case2, run.ref):
            # collect executes the pipeline at the verb call
            out.count("engine_quirk:" + engine_quirk(pl.error[1], case2, run.ref))
        elif pl.error is not None and engine_quirk(pl.error[1], case2, run.ref) == "polars_empty_frame_null_dtype":
            out.count("engine_quirk:polars_empty_frame_null_dtype")
        elif pl.error is not None:
            k, ex = pl.error
            out.fail("internal-error", f"polars:{case2['steps'][k]['verb']}:{exc_name(ex)}:{innermost_repo_frame(ex)}",
                     f"Polars verb call `{case2['steps'][k]['verb']}` raised {exc_name(ex)}: {ex}", step=k)

    rvars = result_vars or [case["result"]]
    for kind in backends:
        b = run.built.get(kind)
        if b is None or b.error is not None:
            continue
        view = "polars" if kind == "polars" else "sql"
        if kind == "sqlite" and run.ref.pl_only:
            out.count("sql_skipped_pl_only")
            continue
        for rv in rvars:
            try:
                df = build.export_polars(b.vars[rv])
            except BaseException as ex:  # noqa: BLE001
                reraise_control(ex)
                if kind == "sqlite" and is_refusal(ex):
                    out.count("sql_refused_at_export:" + exc_name(ex))
                    continue
                q = engine_quirk(ex, run.case2, run.ref)
                if q:
                    out.count("engine_quirk:" + q)
                    continue
                if kind == "polars" and _noopt_agrees(b.vars[rv], lambda d: None):
                    # the Polars optimizer panics or raises on a plan that collects without it (e.g. a predicate pushed
                    # into the wrong side of a cross join): engine bug, DESIGN 4.15 (g); the unoptimised result is
                    # what gets compared below
                    out.count("engine_quirk:polars_optimizer_" + ("panic" if exc_name(ex) == "PanicException" else "error"))
                    try:
                        df = build.export_polars_noopt(b.vars[rv])
                    except BaseException as ex2:  # noqa: BLE001
                        reraise_control(ex2)
                        continue
                    run.frames[(kind, rv)] = df
                    if ref_compare:
                        try:
                            oracle.compare_ref(run.ref.vars[rv], df, view=view)
                        except oracle.Mismatch as mm:
                            out.fail("mismatch", f"{kind}:{mm.kind}:noopt", f"{kind} (unoptimised plan) vs reference at {rv}: {mm}", var=rv)
                    continue
                out.fail("internal-error", f"{kind}:export:{exc_name(ex)}:{innermost_repo_frame(ex)}",
                         f"{kind} export raised {exc_name(ex)}: {str(ex)[:500]}")
                continue
            run.frames[(kind, rv)] = df
            if not ref_compare:
                continue
            try:
                how = oracle.compare_ref(run.ref.vars[rv], df, view=view)
                out.count(f"compared:{kind}:{how}")
            except oracle.Mismatch as mm:
                if kind == "polars" and polars_agg_list_quirk(run.case2, df):
                    out.count("engine_quirk:polars_agg_returns_list")
                    run.frames.pop((kind, rv), None)
                    continue
                if kind == "polars" and polars_null_compare_in_agg_quirk(run.case2):
                    out.count("engine_quirk:polars_null_compare_in_agg")
                    run.frames.pop((kind, rv), None)
                    run.prefix_quirk = run.prefix_quirk or "polars_null_compare_in_agg"
                    continue
                if kind == "polars" and polars_scalar_in_agg_quirk(run.case2):
                    out.count("engine_quirk:polars_scalar_in_agg")
                    run.frames.pop((kind, rv), None)
                    run.prefix_quirk = run.prefix_quirk or "polars_scalar_in_agg"
                    continue
                if kind == "polars" and _noopt_agrees(b.vars[rv], lambda d: oracle.compare_ref(run.ref.vars[rv], d, view=view)):
                    out.count("engine_quirk:polars_optimizer")
                    run.frames[(kind, rv)] = build.export_polars_noopt(b.vars[rv])
                    continue
                if kind == "sqlite" and sqlite_full_join_quirk(run.case2, rv):
                    out.count("engine_quirk:sqlite_full_join_in_compound_subquery")
                    run.frames.pop((kind, rv), None)
                    continue
                where = first_divergence(run, kind, rv) if localize else "?"
                if run.prefix_quirk:
                    # an intermediate table of this lineage already trips an engine bug: what the engine makes of the
                    # rest of the plan says nothing about the library
                    out.count("engine_quirk:prefix:" + run.prefix_quirk)
                    run.frames.pop((kind, rv), None)
                    continue
                out.fail("mismatch", f"{kind}:{mm.kind}:{where}", f"{kind} vs reference at {rv}: {mm}", var=rv)
    if differential:
        for rv in rvars:
            a, b = run.frames.get(("polars", rv)), run.frames.get(("sqlite", rv))
            if a is None or b is None:
                continue
            try:
                how = differential_compare(run.ref.vars[rv], a, b)
                out.count("differential:" + how)
            except oracle.Mismatch as mm:
                pl_tbl = run.built["polars"].vars[rv]
                if _noopt_agrees(pl_tbl, lambda d: differential_compare(run.ref.vars[rv], d, b)):
                    out.count("engine_quirk:polars_optimizer")
                    continue
                if polars_scalar_in_agg_quirk(run.case2):
                    out.count("engine_quirk:polars_scalar_in_agg")
                    continue
                if sqlite_full_join_quirk(run.case2, rv):
                    out.count("engine_quirk:sqlite_full_join_in_compound_subquery")
                    continue
                where = first_diff_divergence(run, rv) if localize else "?"
                out.fail("mismatch", f"differential:{mm.kind}:{where}", f"Polars vs SQLite at {rv}: {mm}", var=rv)
    if close:
        _close(run)
    return run


def _noopt_agrees(tbl, compare):
    """True if the same lazy plan, collected without the Polars optimizer, passes `compare`."""
    try:
        df = build.export_polars_noopt(tbl)
        compare(df)
        return True
    except BaseException as ex:  # noqa: BLE001
        reraise_control(ex)
        return False


def close_run(run):
    _close(run)


def _close(run):
    for b in run.built.values():
        try:
            b.backend.close()
        except Exception:
            pass


def first_divergence(run: PipelineRun, kind, rv) -> str:
    """Verb of the first step on the lineage of rv whose output differs from the reference."""
    b = run.built[kind]
    view = "polars" if kind == "polars" else "sql"
    prev = "source"
    for s in lineage(run.case2, rv):
        v = s["out"]
        if v not in b.vars or v not in run.ref.vars:
            continue
        try:
            df = build.export_polars(b.vars[v])
            oracle.compare_ref(run.ref.vars[v], df, view=view)
        except oracle.Mismatch:
            if kind == "polars" and v != rv and _noopt_agrees(b.vars[v], lambda d, v=v: oracle.compare_ref(run.ref.vars[v], d, view=view)):
                # an intermediate table is only wrong under the Polars optimizer (DESIGN 4.15 b); a later collect()
                # has frozen that result
                run.prefix_quirk = "polars_optimizer"
            return f"{s['verb']}<{prev}"
        except BaseException as ex:  # noqa: BLE001
            reraise_control(ex)
            run.prefix_quirk = engine_quirk(ex, run.case2, run.ref)
            return f"{s['verb']}!{exc_name(ex)}"
        if not s.get("_auto"):
            prev = s["verb"]
    return "?"


def n_data_verbs(case):
    return sum(1 for s in case["steps"] if s["verb"] in DATA_VERBS)


def differential_compare(t, df_pl, df_sql):
    """Polars frame vs SQLite frame.  The reference table `t` only supplies the order
    descriptor (which leading arrange keys bind the SQL order) and the UNDEF mask."""
    from .refsem import UNDEF

    na, ra = oracle.frame_rows(df_pl)
    nb, rb = oracle.frame_rows(df_sql)
    if na != nb:
        raise oracle.Mismatch("names", f"polars {na} vs sqlite {nb}")
    if len(ra) != len(rb):
        raise oracle.Mismatch("height", f"polars {len(ra)} rows vs sqlite {len(rb)} rows")
    # columns with an out-of-domain cell are not compared
    bad = [k for k, (_, c) in enumerate(t.visible) if any(v is UNDEF for v in t.data[c])]
    if bad and len(t.visible) == len(na):
        keep = [k for k in range(len(na)) if k not in bad]
        ra = [tuple(r[k] for k in keep) for r in ra]
        rb = [tuple(r[k] for k in keep) for r in rb]
    tol = oracle.TOL_SQL
    n = t.n_sql
    if n == 0 or t.n != len(ra):
        if not oracle.multiset_eq(ra, rb, tol):
            raise oracle.Mismatch("rows", f"multisets differ: polars {ra[:5]} sqlite {rb[:5]}")
        return "multiset"
    keys = [tuple(g[i] for g in t.okeys[:n]) for i in range(t.n)]
    i = 0
    while i < t.n:
        j = i
        while j < t.n and keys[j] == keys[i]:
            j += 1
        if not oracle.multiset_eq(ra[i:j], rb[i:j], tol):
            raise oracle.Mismatch("order", f"rows {i}..{j - 1}: polars {ra[i:j][:4]} sqlite {rb[i:j][:4]}")
        i = j
    return "ties"


def first_diff_divergence(run, rv):
    pl, sq = run.built.get("polars"), run.built.get("sqlite")
    prev = "source"
    for s in lineage(run.case2, rv):
        v = s["out"]
        if v not in pl.vars or v not in sq.vars or v not in run.ref.vars:
            continue
        try:
            differential_compare(run.ref.vars[v], build.export_polars(pl.vars[v]), build.export_polars(sq.vars[v]))
        except oracle.Mismatch:
            return f"{s['verb']}<{prev}"
        except BaseException as ex:  # noqa: BLE001
            reraise_control(ex)
            return f"{s['verb']}!{exc_name(ex)}"
        if not s.get("_auto"):
            prev = s["verb"]
    return "?"
