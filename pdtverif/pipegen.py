"""Schema-aware pipeline / history strategies.  The reference interpreter runs while the
pipeline is drawn, so every verb is well-formed for the table it is applied to and every
argument is inside the value domain (DESIGN §3, §4)."""
from __future__ import annotations

from hypothesis import strategies as st

from . import data, refsem
from .exprgen import FAMS, Cfg, ExprGen, Scope, dedupe_keys, evaluate, lit_of
from .ir import enc, walk_expr
from .refsem import UNDEF, OutOfDomain, RefBug, RefReject

DEFAULT_WEIGHTS = {
    "select": 6, "drop": 3, "rename": 6, "mutate": 14, "filter": 10, "arrange": 8, "slice_head": 6,
    "group_by": 5, "ungroup": 2, "summarize": 7, "join": 7, "union": 4, "alias": 4, "collect": 0,
}


class GenSkip(Exception):
    """Nothing to choose from for this verb at this point; the verb is skipped."""


class PCfg:
    def __init__(self, **kw):
        self.weights = dict(DEFAULT_WEIGHTS)
        self.max_len = 6
        self.min_len = 1
        self.sql = True  # a SQL twin exists: orders must be total by keys before slice_head
        self.expr = Cfg()
        self.agg_in_mutate = True
        self.win_in_mutate = True
        self.expose = 3  # chance (of 10) of a final mutate that copies hidden columns into visible ones
        self.win_direct = 1  # chance (of 10) that a mutate item is a window function at its root
        self.sub_len = 2
        self.captures = True
        self.allow_tall = False
        self.fams = FAMS
        self.max_tables = 3
        self.join_hows = ("inner", "left", "full", "cross")
        self.nonequi = True
        self.exclude_known = True  # avoid the shapes of open known findings by construction
        self.sized = False  # sized integer / float32 source columns (C12, C17)
        self.union_mixed = 1  # weight (against 4) of tag columns with different literal types in a union
        w = kw.pop("weights", None)
        self.__dict__.update(kw)
        if w:
            self.weights.update(w)


class PipeGen:
    def __init__(self, draw, cfg: PCfg, tables=None):
        self.draw = draw
        self.cfg = cfg
        if tables is None:
            k = draw(st.integers(1, cfg.max_tables))
            tables = [draw(data.table(f"t{i}", fams=cfg.fams, allow_tall=cfg.allow_tall and i == 0,
                                      plain_str=cfg.expr.plain_str, sized=cfg.sized)) for i in range(k)]
        self.case = {"tables": tables, "steps": []}
        self.env = refsem.Env(self.case)
        self.nvar = 0
        self.skipped = 0
        self.gen_rejects = 0
        self.used_tables = set()
        self.classes = set()
        self.excluded = {}
        # a verb that cannot be generated at this point (nothing to choose from, argument outside
        # the value domain) is skipped: every generator method returns None in that case
        for name in dir(self):
            if name.startswith("v_") or name in ("sub_pipeline", "shape_to"):
                setattr(self, name, self._guard(getattr(self, name)))

    def _guard(self, fn):
        def wrapped(*a, **k):
            try:
                return fn(*a, **k)
            except (OutOfDomain, GenSkip):
                self.skipped += 1
                return None

        return wrapped

    def _noop(self):
        pass

    # ---- helpers ----
    def chance(self, num, den=10):
        return self.draw(st.integers(0, den - 1)) < num

    def pick(self, xs):
        xs = list(xs)
        if not xs:
            raise GenSkip()
        return self.draw(st.sampled_from(xs))

    def new_var(self):
        v = f"v{self.nvar}"
        self.nvar += 1
        return v

    def emit(self, step):
        """Apply to the reference; append on success. Returns out var or None."""
        try:
            refsem.apply_step(self.env, step)
        except OutOfDomain:
            self.env.vars.pop(step["out"], None)
            self.skipped += 1
            return None
        except RefReject:
            self.env.vars.pop(step["out"], None)
            self.gen_rejects += 1
            return None
        self.case["steps"].append(step)
        return step["out"]

    def source(self, tname=None, name=None):
        if tname is None:
            tname = self.pick([t["name"] for t in self.case["tables"]])
        self.used_tables.add(tname)
        st_ = {"out": self.new_var(), "verb": "source", "table": tname}
        if name is not None:
            st_["name"] = name
        return self.emit(st_)

    def t(self, var) -> refsem.RT:
        return self.env.vars[var]

    def scope(self, var):
        return Scope(self.env, self.t(var), captures=self.cfg.captures)

    def eg(self, var):
        return ExprGen(self.draw, self.scope(var), self.cfg.expr)

    def depth(self):
        return self.draw(st.integers(0, self.cfg.expr.max_depth))

    def colref(self, var, *, visible=True, exclude=()):
        sc = self.scope(var)
        cands = [(r, c, f) for r, c, f in sc.vis_refs if c not in exclude]
        if not cands:
            return None
        return self.pick(cands)

    # ---- verbs ----
    def v_select(self, var):
        t = self.t(var)
        sc = self.scope(var)
        names = t.names()
        keep = set(t.group) if self.chance(8) else set()  # a deselected grouping column keeps grouping the table
        vis = list(t.visible)
        perm = list(self.draw(st.permutations(vis)))
        k = self.draw(st.integers(1, len(perm)))
        chosen = perm[:k]
        for n, c in vis:
            if c in keep and (n, c) not in chosen:
                chosen.append((n, c))
        if self.cfg.exclude_known and t.agg_cols and not any(c in t.agg_cols for _, c in chosen):
            # K03 (open finding): keep one column of an ungrouped summarize selected
            extra = [(n, c) for n, c in vis if c in t.agg_cols]
            if extra:
                chosen.append(self.pick(extra))
                self.excluded["K03"] = self.excluded.get("K03", 0) + 1
        refs = []
        for n, c in chosen:
            alts = [r for r, cc, _ in sc.vis_refs if cc == c]
            refs.append(self.pick(alts))
        if [c for _, c in chosen] != [c for _, c in vis]:
            self.classes.add("select_reorder" if len(chosen) == len(vis) else "select_subset")
        return self.emit({"out": self.new_var(), "verb": "select", "in": var, "cols": refs})

    def v_drop(self, var):
        t = self.t(var)
        sc = self.scope(var)
        cands = [(n, c) for n, c in t.visible if c not in t.group or self.chance(2)]
        if self.cfg.exclude_known and t.agg_cols:
            vis_agg = [c for _, c in t.visible if c in t.agg_cols]
            if len(vis_agg) >= 1:
                protect = vis_agg[0]
                cands = [(n, c) for n, c in cands if c != protect]
        if len(t.visible) < 2 or not cands:
            return None
        k = self.draw(st.integers(1, min(len(cands), len(t.visible) - 1)))
        chosen = list(self.draw(st.permutations(cands)))[:k]
        refs = [self.pick([r for r, cc, _ in sc.vis_refs if cc == c]) for _, c in chosen]
        return self.emit({"out": self.new_var(), "verb": "drop", "in": var, "cols": refs})

    def v_rename(self, var):
        t = self.t(var)
        sc = self.scope(var)
        names = t.names()
        k = self.draw(st.integers(1, min(2, len(names))))
        chosen = list(self.draw(st.permutations(names)))[:k]
        if k == 2 and self.chance(4):
            new = [chosen[1], chosen[0]]  # swap
            self.classes.add("rename_swap")
        else:
            hidden_names = set()
            new = []
            for _ in chosen:
                pool = [n for n in data.NEW_NAMES if n not in names and n not in new]
                new.append(self.pick(pool))
        final = [dict(zip(chosen, new)).get(n, n) for n in names]
        if len(set(final)) != len(final):
            return None
        vis = t.vis()
        m = []
        for old, nw in zip(chosen, new):
            if self.chance(6):
                m.append([old, nw])
            else:
                m.append([self.pick([r for r, cc, _ in sc.vis_refs if cc == vis[old]]), nw])
        self.classes.add("rename")
        return self.emit({"out": self.new_var(), "verb": "rename", "in": var, "map": m})

    def new_col_name(self, t, taken, allow_overwrite=True, allow_group=False):
        names = t.names()
        group_names = set() if allow_group else {n for n, c in t.visible if c in t.group}
        pool = [n for n in data.NEW_NAMES if n not in taken and n not in group_names and n != "id"]
        if not allow_overwrite:
            pool = [n for n in pool if n not in names]
        fresh = [n for n in pool if n not in names]
        if fresh and self.chance(6):
            return self.pick(fresh)
        return self.pick(pool)

    def v_mutate(self, var, *, agg=None, win=None):
        t = self.t(var)
        eg = self.eg(var)
        agg = self.cfg.agg_in_mutate if agg is None else agg
        win = self.cfg.win_in_mutate if win is None else win
        k = self.draw(st.integers(1, 3))
        items, taken = [], set()
        vis_agg = [n for n, c in t.visible if c in t.agg_cols]
        for _ in range(k):
            # (a grouping column may be overwritten: the table stays grouped by the - now hidden - old column)
            name = self.new_col_name(t, taken)
            gnames = [n for n, c in t.visible if c in t.group and n not in taken and n != "id"]
            if gnames and self.chance(2):
                name = self.pick(gnames)
                self.classes.add("overwrite_group_col")
            if self.cfg.exclude_known and len(vis_agg) == 1 and name == vis_agg[0]:
                # K03 (open finding): the last selected column of an ungrouped summarize is not overwritten
                name = self.new_col_name(t, taken | {name}, allow_overwrite=False)
                self.excluded["K03"] = self.excluded.get("K03", 0) + 1
            taken.add(name)
            fam = self.pick(FAMS if (self.cfg.expr.strings and self.cfg.expr.dates) else ("int", "float", "bool"))
            use_ftype = self.chance(3)
            e = None
            if win and self.chance(self.cfg.win_direct):
                e = eg.window(fam, self.depth())
            if e is None:
                e = eg.gen(fam, self.depth(), agg=agg and use_ftype, win=win and use_ftype)
            if not any(nd[0] == "col" for nd in walk_expr(e)) and self.chance(8):
                e = eg.leaf(fam)  # constant columns stay rare (they mostly exercise engine quirks)
            try:
                evaluate(self.env, t, e, "mutate")
            except (OutOfDomain, RefReject):
                e = eg.leaf(fam)
            items.append([name, e])
            if name in t.names():
                self.classes.add("overwrite")
        return self.emit({"out": self.new_var(), "verb": "mutate", "in": var, "items": items})

    def split_pred(self, var):
        """A predicate over one visible column with a pivot taken from the column's values: it keeps some rows and
        drops others, so whatever is computed before / after the filter differs observably."""
        t = self.t(var)
        r = self.colref(var)
        if r is None:
            return None
        ref, cid, fam = r
        col = ["col", ref]
        if fam == "bool":
            return col if self.chance(5) else ["fn", "invert", [col], {}]
        vals = sorted({v for v in t.data[cid] if v is not None and v is not UNDEF})
        if not vals or fam == "null":
            return ["fn", self.pick(["is_null", "is_not_null"]), [col], {}]
        if fam == "float":
            # computed floats may differ in the last place between the engines: the pivot lies strictly between two
            # well separated values (or beside the only one), never on a value
            gaps = [(a, b) for a, b in zip(vals, vals[1:]) if b - a > 1e-6 * max(1.0, abs(a), abs(b))]
            if gaps:
                a, b = self.pick(gaps[:6])
                pivot = (a + b) / 2
            else:
                pivot = vals[0] + self.pick([-1.0, 1.0])
            return ["fn", self.pick(["lt", "gt"]), [col, ["lit", float(pivot)]], {}]
        pivot = self.pick(vals[:6] + vals[-2:])
        op = self.pick(["eq", "ne"] if fam == "str" else ["le", "gt", "lt", "ge", "eq", "ne"])
        return ["fn", op, [col, ["lit", enc(pivot)]], {}]

    def v_filter(self, var):
        t = self.t(var)
        eg = self.eg(var)
        k = self.draw(st.integers(1, 2))
        preds = []
        for _ in range(k):
            e = self.split_pred(var) if self.chance(4) else None
            if e is None:
                e = eg.gen("bool", self.depth())
            if not any(nd[0] == "col" for nd in walk_expr(e)) and self.chance(9):
                e = self.split_pred(var) or e  # literal-only predicates stay rare: they make everything downstream trivial
            ok = True
            try:
                vec = evaluate(self.env, t, e, "plain")
                ok = not any(v is UNDEF for v in vec.vals)
            except (OutOfDomain, RefReject):
                ok = False
            if not ok:
                r = self.colref(var)
                e = ["fn", "is_not_null", [["col", r[0]]], {}] if r else ["lit", True]
            preds.append(e)
        if t.n > 1 and self.chance(8) and self._kept(t, preds) in (0, t.n):
            # a filter that keeps nothing (or everything) makes the rest of the pipeline trivial: prefer one that splits
            for _ in range(3):
                e = self.split_pred(var)
                if e is not None and 0 < self._kept(t, [e]) < t.n:
                    preds = [e]
                    break
        return self.emit({"out": self.new_var(), "verb": "filter", "in": var, "preds": preds})

    def _kept(self, t, preds):
        try:
            keep = [True] * t.n
            for e in preds:
                vec = evaluate(self.env, t, e, "plain")
                keep = [k and v is True for k, v in zip(keep, vec.vals)]
            return sum(keep)
        except (OutOfDomain, RefReject):
            return -1

    def order_keys(self, var, k=None, unique=False):
        t = self.t(var)
        eg = self.eg(var)
        sc = eg.s
        k = self.draw(st.integers(1, 3)) if k is None else k
        keys = []
        for _ in range(k):
            fam = self.pick(sc.fams_available() or ["int"])
            e = eg.gen(fam, self.draw(st.integers(0, 2)))
            if not any(nd[0] == "col" for nd in walk_expr(e)):
                e = eg.leaf(fam)  # a sort key refers to at least one column (DESIGN §4.14)
                if e[0] != "col":
                    continue
            nulls = self.pick(["first", "last", None])
            try:
                vec = evaluate(self.env, t, e, "mutate")
                if any(v is UNDEF for v in vec.vals):
                    raise OutOfDomain
                if nulls is None and any(v is None for v in vec.vals):
                    nulls = self.pick(["first", "last"])
            except (OutOfDomain, RefReject):
                r = self.colref(var)
                if r is None:
                    continue
                e, nulls = ["col", r[0]], self.pick(["first", "last"])
            keys.append([e, self.draw(st.booleans()), nulls, self.draw(st.integers(0, 2))])
        if unique:
            keys += self.unique_tail(var)
        return dedupe_keys(sc, keys)

    def unique_tail(self, var):
        t = self.t(var)
        sc = self.scope(var)
        if sc.id_refs and len(sc.id_refs) == len(t.idcols):
            return [[["col", r], self.draw(st.booleans()), None, 0] for r in sc.id_refs]
        # no unique id left: order by every visible column (ties are then fully equal rows
        # unless hidden columns differ, which the reference checks)
        return [[["col", {"c": n}], False, "last", 0] for n in t.names()]

    def v_arrange(self, var, unique=False):
        keys = self.order_keys(var, unique=unique)
        if not keys:
            return None
        return self.emit({"out": self.new_var(), "verb": "arrange", "in": var, "keys": keys})

    def v_slice_head(self, var):
        t = self.t(var)
        if t.group:
            var = self.emit({"out": self.new_var(), "verb": "ungroup", "in": var})
            t = self.t(var)
        need = self.cfg.sql or not t.base_pl
        if need and not refsem.order_is_total(t, t.n_sql if self.cfg.sql else len(t.okeys)) or (self.cfg.sql and t.n_sql == 0):
            k = self.draw(st.integers(0, 2))
            keys = dedupe_keys(self.scope(var), (self.order_keys(var, k=k) if k else []) + self.unique_tail(var))
            var2 = self.emit({"out": self.new_var(), "verb": "arrange", "in": var, "keys": keys})
            if var2 is None:
                return None
            var = var2
            t = self.t(var)
        n = self.draw(st.integers(0, t.n + 3))
        off = self.draw(st.integers(0, t.n + 3)) if self.chance(5) else 0
        self.classes.add("slice")
        out = self.emit({"out": self.new_var(), "verb": "slice_head", "in": var, "n": n, "offset": off})
        if out is not None and self.chance(3):
            # a second slice of the same SELECT; its offset may lie beyond what the first one left
            n2 = self.draw(st.integers(0, n + 2))
            off2 = self.draw(st.integers(0, n + 2)) if self.chance(7) else 0
            out2 = self.emit({"out": self.new_var(), "verb": "slice_head", "in": out, "n": n2, "offset": off2})
            if out2 is not None:
                self.classes.add("slice_chain")
                return out2
        return out

    def v_group_by(self, var):
        t = self.t(var)
        sc = self.scope(var)
        if not sc.vis_refs:
            return None
        k = self.draw(st.integers(1, 2))
        cands = [x for x in sc.vis_refs if x[1] not in t.group]
        if self.cfg.exclude_known:
            # K05 (open finding): grouping by constant columns only
            nc = [x for x in cands if x[1] not in t.const_cols]
            if len(nc) != len(cands):
                self.excluded["K05"] = self.excluded.get("K05", 0) + 1
            cands = nc
        # prefer key-like columns (few distinct values)
        if not cands:
            return None
        seen, refs = set(), []
        for _ in range(k):
            r, c, f = self.pick(cands)
            if c in seen:
                continue
            seen.add(c)
            refs.append(r)
        add = bool(t.group) and self.chance(5)
        return self.emit({"out": self.new_var(), "verb": "group_by", "in": var, "cols": refs, "add": add})

    def v_ungroup(self, var):
        return self.emit({"out": self.new_var(), "verb": "ungroup", "in": var})

    def v_summarize(self, var):
        t = self.t(var)
        eg = self.eg(var)
        if not t.group and self.chance(6):
            v2 = self.v_group_by(var)
            if v2 is not None:
                var, t, eg = v2, self.t(v2), self.eg(v2)
        k = self.draw(st.integers(1, 3))
        groups = refsem.partition_rows(t, t.group) if t.group else [list(range(t.n))]
        if t.group and t.n == 0:
            groups = []
        items, taken = [], set()
        for _ in range(k):
            name = self.new_col_name(t, taken, allow_overwrite=self.chance(3), allow_group=self.chance(2))
            gnames = [n for n, c in t.visible if c in t.group and n not in taken]
            if gnames and self.chance(2):
                name = self.pick(gnames)  # a new column takes the name of a grouping column
            if any(n == name and c in t.group for n, c in t.visible):
                self.classes.add("summarize_overwrites_key")
            taken.add(name)
            fam = self.pick(("int", "float", "bool", "int", "float") + (("str", "date") if self.cfg.expr.strings else ()))
            e = eg.gen(fam, self.draw(st.integers(1, max(1, self.cfg.expr.max_depth))), summ=True)
            try:
                refsem.Evaluator(self.env, t, "summarize", groups).group_vals(e)
            except (OutOfDomain, RefReject):
                e = ["fn", "count_star", [], {}]
            items.append([name, e])
        self.classes.add("summarize")
        return self.emit({"out": self.new_var(), "verb": "summarize", "in": var, "items": items})

    def v_alias(self, var):
        nm = self.pick([None, None, "t1", "r", "s"])
        keep = self.chance(4)
        st_ = {"out": self.new_var(), "verb": "alias", "in": var, "keep": keep}
        if nm is not None:
            st_["name"] = nm
        self.classes.add("alias")
        return self.emit(st_)

    def v_collect(self, var):
        return self.emit({"out": self.new_var(), "verb": "collect", "in": var, "keep": self.chance(7)})

    # right operands -----------------------------------------------------------------
    def sub_pipeline(self, exclude_nodes, length=None):
        """A short pipeline over a source table (or an alias of an existing table) that
        shares no node with `exclude_nodes`."""
        cands = [v for v, t in self.env.vars.items() if not (t.nodes & exclude_nodes) and not t.group and "~" not in v]
        if cands and self.chance(3):
            var = self.pick(cands)
        elif self.chance(3) and self.env.vars:
            base = self.pick([v for v in self.env.vars if "~" not in v])
            var = self.emit({"out": self.new_var(), "verb": "alias", "in": base, "keep": False,
                             **({"name": self.pick(["t1", "r"])} if self.chance(5) else {})})
            if var is not None and self.t(var).group:
                var = self.emit({"out": self.new_var(), "verb": "ungroup", "in": var})
            self.classes.add("self_join_operand")
        else:
            tname = self.pick([t["name"] for t in self.case["tables"]])
            name = self.pick([None, None, "t1", "r"]) if self.chance(3) else None
            if tname in self.used_tables or True:
                var = self.source(tname, name=name)
        if var is None:
            return None
        length = self.draw(st.integers(0, self.cfg.sub_len)) if length is None else length
        for _ in range(length):
            verb = self.pick(["filter", "mutate", "select", "rename", "filter", "mutate"])
            v2 = getattr(self, "v_" + verb)(var) if verb != "mutate" else self.v_mutate(var, agg=False, win=False)
            if v2 is not None:
                var = v2
        if self.t(var).nodes & exclude_nodes:
            return None
        return var

    def v_join(self, var):
        t = self.t(var)
        if t.group:
            var = self.emit({"out": self.new_var(), "verb": "ungroup", "in": var})
            t = self.t(var)
        rvar = self.sub_pipeline(t.nodes)
        if rvar is None:
            return None
        rt = self.t(rvar)
        if self.chance(3) and len(rt.visible) > 1 and not rt.group:
            # hidden columns of the same name on both sides: deselect on the right what is hidden on the left
            lh = set(t.hidden())
            hidden_names = {n for v in self.env.vars.values() for n, c in v.visible if c in lh}
            cand = [n for n, c in rt.visible if n in hidden_names and c not in rt.agg_cols]
            if cand:
                r2 = self.emit({"out": self.new_var(), "verb": "drop", "in": rvar, "cols": [{"c": self.pick(cand)}]})
                if r2 is not None:
                    rvar, rt = r2, self.t(r2)
                    self.classes.add("join_hidden_both_sides")
        if t.n * rt.n > 4000:
            return None  # keep products small (bounds are stated in the evidence rule)
        if set(t.scope) & set(rt.scope):
            return None  # operands sharing columns (e.g. a table and its collect(keep_col_refs=True)) cannot be joined
        how = self.pick(self.cfg.join_hows)
        if self.cfg.exclude_known and how in ("left", "full"):
            # K01 (open finding): computed columns on a null-padded side; excluded by construction
            from .findings import side_has_computed

            tmp = {"steps": self.case["steps"]}
            if side_has_computed(tmp, rvar) or (how == "full" and side_has_computed(tmp, var)):
                how = "inner"
                self.excluded["K01"] = self.excluded.get("K01", 0) + 1
        lsc, rsc = self.scope(var), self.scope(rvar)
        on = []
        step = {"out": None, "verb": "join", "in": var, "right": rvar, "how": how}
        if how == "cross":
            step["how"] = "inner"
            step["cross"] = True
        else:
            nconds = self.draw(st.integers(1, 2))
            seen_conds = set()
            for _ in range(nconds):
                fams = [f for f in FAMS if lsc.by_fam[f] and rsc.by_fam[f]]
                if not fams:
                    break
                f = self.pick(fams)
                # string shorthand
                common = [n for n in t.names() if n in rt.vis() and t.fam[t.vis()[n]] == rt.fam[rt.vis()[n]]]
                if common and self.chance(2):
                    nm = self.pick(common)
                    key = ("eq", tuple(sorted([str(t.vis()[nm]), str(rt.vis()[nm])])))
                    if nm not in on and not seen_conds:
                        on.append(nm)
                        seen_conds.add(("str", nm))
                    continue
                fl = fr = f
                if f in ("int", "float") and self.chance(2):
                    # an Int key on one side and a Float key on the other (the common type is Float)
                    other = "float" if f == "int" else "int"
                    if rsc.by_fam[other]:
                        fr = other
                        self.classes.add("join_int_float_key")
                l = ["col", self.pick([r for r, _ in lsc.by_fam[fl] if "v" in r] or [r for r, _ in lsc.by_fam[fl]])]
                r = ["col", self.pick([r for r, _ in rsc.by_fam[fr] if "v" in r] or [r for r, _ in rsc.by_fam[fr]])]
                # C.x is only unambiguous if the name exists on one side only
                for side in (l, r):
                    if "c" in side[1]:
                        n = side[1]["c"]
                        if n in t.vis() and n in rt.vis():
                            side[1] = None
                if l[1] is None or r[1] is None:
                    continue
                op = "eq"
                if how != "full" and self.cfg.nonequi and self.chance(2):
                    op = self.pick(["lt", "le", "gt", "ge", "ne"]) if f != "bool" else "ne"
                    self.classes.add("nonequi_join")
                pair = [l, r] if self.chance(7) else [r, l]
                cond = ["fn", op, pair, {}]
                kl, kr = ("L", str(l)), ("R", str(r))
                if kl in seen_conds or kr in seen_conds:
                    continue  # a column twice among the join keys (Polars refuses repeated keys)
                seen_conds |= {kl, kr}
                on.append(cond)
            if not on:
                step["how"] = "inner"
                step["cross"] = True
        step["on"] = on
        if len(on) == 1 and self.chance(5):
            step["on_single"] = True
        if self.chance(3):
            step["suffix"] = self.pick(["_r", "_x", "_t1"])
        step["out"] = self.new_var()
        out = self.emit(step)
        if out is not None:
            self.classes.add("join")
            if set(t.names()) & set(rt.names()):
                self.classes.add("join_collision")
        return out

    def shape_to(self, var, target):
        """Bring table `var` to visible columns `target` = [(name, fam)] (some order)."""
        t = self.t(var)
        if self.cfg.exclude_known and t.agg_cols:
            # K03 (open finding): shaping an ungrouped summary may deselect all of its columns
            self.excluded["K03"] = self.excluded.get("K03", 0) + 1
            return None
        eg = self.eg(var)
        items = []
        have = {n: t.fam[c] for n, c in t.visible}
        for n, f in target:
            if have.get(n) == f and self.chance(7):
                continue
            if have.get(n) in ("int", "float") and f in ("int", "float") and self.chance(5):
                self.classes.add("union_int_float")
                continue
            f_gen = f
            if f in ("int", "float") and self.chance(2):
                f_gen = "float" if f == "int" else "int"  # compatible, not equal, column types
                self.classes.add("union_int_float")
            e = eg.gen(f_gen, self.draw(st.integers(0, 1)))
            try:
                evaluate(self.env, t, e, "mutate")
            except (OutOfDomain, RefReject):
                e = lit_of(self.draw, f, self.cfg.expr, typed_ok=False)
            if e[0] == "lit" and f in ("date", "datetime", "str", "float", "int", "bool"):
                # a bare literal column is fine as well (const column)
                pass
            items.append([n, e])
        if items:
            var = self.emit({"out": self.new_var(), "verb": "mutate", "in": var, "items": items})
            if var is None:
                return None
        order = list(self.draw(st.permutations([n for n, _ in target])))
        if order != [n for n, _ in target]:
            self.classes.add("union_permuted")
        return self.emit({"out": self.new_var(), "verb": "select", "in": var, "cols": [{"c": n} for n in order]})

    def v_union(self, var, follow=True):
        t = self.t(var)
        if t.group:
            var = self.emit({"out": self.new_var(), "verb": "ungroup", "in": var})
            t = self.t(var)
        target = [(n, t.fam[c]) for n, c in t.visible]
        if any(f == "null" for _, f in target):
            return None
        rvar = self.sub_pipeline(frozenset(), length=self.draw(st.integers(0, 1)))
        if rvar is None:
            return None
        if self.t(rvar).group:
            return None
        rvar = self.shape_to(rvar, target)
        if rvar is None:
            return None
        tag = None
        if self.chance(2):
            # the tagging idiom: a literal column of the same name on both operands
            taken = set(t.names()) | set(self.t(rvar).names())
            fresh = [n for n in data.NEW_NAMES if n not in taken]
            if fresh:
                name = self.pick(fresh)
                fam = self.pick(["str", "int", "str", "int"] + ["mixed"] * self.cfg.union_mixed)
                la, lb = (["lit", "a"], ["lit", "b"]) if fam == "str" else (["lit", 1], ["lit", 2])
                if fam == "mixed":
                    # literal columns of different types: the union's column type is their common type
                    la, lb = self.pick([(["lit", 1], ["lit", 2.5]), (["lit", 2.5], ["lit", 1]), (["lit", None], ["lit", 7]),
                                        (["lit", 7], ["lit", None]), (["lit", None], ["lit", "r"]), (["lit", "r"], ["lit", None]),
                                        (["lit", None], ["lit", 1.5]), (["lit", True], ["lit", None])])
                    self.classes.add("union_tag_mixed_types")
                elif self.chance(2):
                    lb = la
                var = self.emit({"out": self.new_var(), "verb": "mutate", "in": var, "items": [[name, la]]})
                rvar = self.emit({"out": self.new_var(), "verb": "mutate", "in": rvar, "items": [[name, lb]]})
                if var is None or rvar is None:
                    return None
                self.classes.add("union_tagged")
                tag = (var, name)
        if self.t(rvar).hidden():
            self.classes.add("union_hidden")
        out = self.emit({"out": self.new_var(), "verb": "union", "in": var, "right": rvar,
                         "distinct": self.chance(4)})
        if out is not None:
            self.classes.add("union")
        if follow and out is not None and tag is not None and self.chance(5):
            # ... followed by counting per tag, through the reference held from the left operand or by name
            ref = {"v": tag[0], "n": tag[1]} if self.chance(5) else {"c": tag[1]}
            gv = self.emit({"out": self.new_var(), "verb": "group_by", "in": out, "cols": [ref], "add": False})
            if gv is not None:
                cn = self.pick([n for n in data.NEW_NAMES if n != tag[1]])
                sv = self.emit({"out": self.new_var(), "verb": "summarize", "in": gv,
                                "items": [[cn, ["fn", "count_star", [], {}]]]})
                if sv is not None:
                    self.classes.add("union_tag_count")
                    return sv
                return None
        return out

    # ---- driver ----
    def allowed(self, var):
        t = self.t(var)
        w = dict(self.cfg.weights)
        if t.group:
            for v in ("slice_head", "join", "union", "collect"):
                w[v] = 0
            w["ungroup"] = max(w.get("ungroup", 0), 4)
            w["summarize"] = w.get("summarize", 0) * 3
        else:
            w["ungroup"] = min(w.get("ungroup", 0), 1)
        if len(t.visible) < 2:
            w["drop"] = 0
        return w

    def extend(self, var, length):
        for _ in range(length):
            w = self.allowed(var)
            verbs = [v for v, x in w.items() for _ in range(x)]
            if not verbs:
                break
            verb = self.pick(verbs)
            try:
                v2 = getattr(self, "v_" + verb)(var)
            except (OutOfDomain, GenSkip):
                self.skipped += 1
                v2 = None
            if v2 is not None:
                var = v2
        return var

    def expose_hidden(self, var, k=2, prefer=()):
        """mutate(z=<reference to a hidden column still in scope>): makes the state of hidden columns observable."""
        t = self.t(var)
        vis = {c for _, c in t.visible}
        cands, seen = [], set()
        for ref, c in self.scope(var).capt:
            if c in t.scope and c not in vis and c not in seen:
                seen.add(c)
                cands.append(ref)
        if not cands:
            return var
        cid_of = {(r["v"], r["n"]): c for r, c in self.scope(var).capt}
        first = [r for r in cands if cid_of.get((r["v"], r["n"])) in set(prefer)]
        items, taken = [], set(t.names())
        for i in range(min(k, len(cands))):
            ref = first[i] if i < len(first) else self.pick(cands)
            fresh = [n for n in data.NEW_NAMES + ["h1", "h2"] if n not in taken]
            if not fresh:
                break
            name = self.pick(fresh)
            taken.add(name)
            items.append([name, ["col", ref]])
        if not items:
            return var
        out = self.emit({"out": self.new_var(), "verb": "mutate", "in": var, "items": items})
        if out is None:
            return var
        self.classes.add("expose_hidden")
        return out

    def pipeline(self):
        var = self.source()
        n = self.draw(st.integers(self.cfg.min_len, self.cfg.max_len))
        var = self.extend(var, n)
        if self.cfg.captures and self.chance(self.cfg.expose):
            var = self.expose_hidden(var)
        t = self.t(var)
        if not t.visible:
            raise RefBug("empty visible list")
        self.case["result"] = var
        return self.case


@st.composite
def pipeline_case(draw, cfg: PCfg | None = None, tables=None):
    g = PipeGen(draw, cfg or PCfg(), tables)
    case = g.pipeline()
    case["_gen"] = {"skipped": g.skipped, "gen_rejects": g.gen_rejects, "classes": sorted(g.classes),
                    "pl_only": g.env.pl_only, "excluded": g.excluded}
    return case
