"""Property-based verification harness for pydiverse.transform (see /verif/DESIGN.md)."""
