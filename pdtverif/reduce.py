"""IR-level delta debugging (DESIGN §2 'Collect, bucket, reduce')."""
from __future__ import annotations

import copy
import time

from . import ir


def _fails_same(check, case, sig):
    try:
        out = check.examine(copy.deepcopy(case))
    except Exception:
        return False
    return any(f.sig() == sig for f in out.failures)


def _rewire(steps, removed_out, new_in):
    res = []
    for s in steps:
        s = copy.deepcopy(s)
        for k in ("in", "right", "ref"):
            if s.get(k) == removed_out:
                s[k] = new_in
        res.append(s)
    return res


def _replace_var_refs(obj, old, new):
    if isinstance(obj, dict):
        if obj.get("v") == old and "n" in obj:
            return {**obj, "v": new}
        return {k: _replace_var_refs(v, old, new) for k, v in obj.items()}
    if isinstance(obj, list):
        return [_replace_var_refs(x, old, new) for x in obj]
    return obj


def _sub_exprs(e):
    k = e[0]
    if k == "fn":
        return list(e[2])
    if k == "case":
        return [v for _, v in e[1]] + ([e[2]] if e[2] is not None else [])
    if k == "map":
        return [e[1]] + [v for _, v in e[2]]
    if k == "cast":
        return [e[1]]
    return []


def reduce_case(check, case, sig, budget_s):
    t0 = time.time()
    case = copy.deepcopy(case)
    if "steps" not in case:
        return case
    if not _fails_same(check, case, sig):
        return case

    def time_left():
        return time.time() - t0 < budget_s

    changed = True
    while changed and time_left():
        changed = False
        # 1. drop steps (last to first), rewiring consumers to the step's input
        k = len(case["steps"]) - 1
        while k >= 0 and time_left():
            s = case["steps"][k]
            if s["verb"] != "source" and "in" in s:
                cand = copy.deepcopy(case)
                rest = cand["steps"][:k] + _rewire(cand["steps"][k + 1 :], s["out"], s["in"])
                rest = _replace_var_refs(rest, s["out"], s["in"])
                cand["steps"] = rest
                for key in ("result", "probe_var"):
                    if cand.get(key) == s["out"]:
                        cand[key] = s["in"]
                cand = _replace_var_refs_top(cand, s["out"], s["in"])
                if _fails_same(check, cand, sig):
                    case = cand
                    changed = True
            elif s["verb"] == "source":
                used = any(x.get("in") == s["out"] or x.get("right") == s["out"] or x.get("ref") == s["out"]
                           for x in case["steps"]) or case.get("result") == s["out"]
                if not used and s["out"] not in ir.dumps(case["steps"][k + 1 :]):
                    cand = copy.deepcopy(case)
                    del cand["steps"][k]
                    if _fails_same(check, cand, sig):
                        case = cand
                        changed = True
            k -= 1
        # 2. drop items / predicates / keys inside steps
        for k in range(len(case["steps"])):
            if not time_left():
                break
            for key in ("items", "preds", "keys", "cols", "map", "on"):
                lst = case["steps"][k].get(key) if k < len(case["steps"]) else None
                if isinstance(lst, list) and len(lst) > 1:
                    j = len(lst) - 1
                    while j >= 0 and len(case["steps"][k][key]) > 1 and time_left():
                        cand = copy.deepcopy(case)
                        del cand["steps"][k][key][j]
                        if _fails_same(check, cand, sig):
                            case = cand
                            changed = True
                        j -= 1
        # 3. simplify expressions: replace by a child
        for k in range(len(case["steps"])):
            if not time_left():
                break
            s = case["steps"][k]
            slots = []
            if s["verb"] in ("mutate", "summarize"):
                slots = [("items", j, 1) for j in range(len(s["items"]))]
            elif s["verb"] == "filter":
                slots = [("preds", j, None) for j in range(len(s["preds"]))]
            elif s["verb"] == "arrange":
                slots = [("keys", j, 0) for j in range(len(s["keys"]))]
            for key, j, sub in slots:
                progress = True
                while progress and time_left():
                    progress = False
                    cur = case["steps"][k][key][j]
                    e = cur if sub is None else cur[sub]
                    for child in _sub_exprs(e):
                        cand = copy.deepcopy(case)
                        if sub is None:
                            cand["steps"][k][key][j] = child
                        else:
                            cand["steps"][k][key][j][sub] = child
                        if _fails_same(check, cand, sig):
                            case = cand
                            changed = progress = True
                            break
        # 4. drop rows
        for ti in range(len(case["tables"])):
            rows = case["tables"][ti]["rows"]
            j = len(rows) - 1
            while j >= 0 and time_left():
                cand = copy.deepcopy(case)
                del cand["tables"][ti]["rows"][j]
                if _fails_same(check, cand, sig):
                    case = cand
                    changed = True
                j -= 1
        # 5. drop unused tables
        for ti in range(len(case["tables"]) - 1, -1, -1):
            name = case["tables"][ti]["name"]
            if not any(s.get("table") == name for s in case["steps"]):
                cand = copy.deepcopy(case)
                del cand["tables"][ti]
                if _fails_same(check, cand, sig):
                    case = cand
                    changed = True
    return case


def _replace_var_refs_top(case, old, new):
    out = {}
    for k, v in case.items():
        if k in ("tables",):
            out[k] = v
        elif k == "steps":
            out[k] = v
        else:
            if isinstance(v, str) and v == old:
                out[k] = new
            elif isinstance(v, list):
                out[k] = [new if x == old else _replace_var_refs(x, old, new) for x in v]
            else:
                out[k] = _replace_var_refs(v, old, new)
    return out
