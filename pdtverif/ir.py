"""JSON-serialisable case IR shared by generators, builder, reference interpreter and replay.

case = {
  "tables": [{"name": str, "cols": [[name, dtype]], "rows": [[v, ...]]}],
  "steps":  [{"out": var, "verb": ..., "in": var, ...}],
  ... check-specific keys
}

Expressions:
  ["col", {"c": name}]                C.name
  ["col", {"v": var, "n": name}]      <table variable var>.<name> captured from that table
  ["lit", value] / ["lit", value, dtype]
  ["fn", opname, [args], {"partition_by": [colrefs], "arrange": [[expr, desc, nulls]], "filter": [exprs]}]
  ["case", [[cond, val], ...], default_or_None]
  ["map", expr, [[[keys], val], ...], default_or_None]
  ["cast", expr, dtype]
Values: None, bool, int, float, str, {"$d": "YYYY-MM-DD"}, {"$dt": "YYYY-MM-DDTHH:MM:SS[.ffffff]"}
"""
from __future__ import annotations

import datetime as dt
import hashlib
import json


def enc(v):
    if isinstance(v, dt.datetime):
        return {"$dt": v.isoformat()}
    if isinstance(v, dt.date):
        return {"$d": v.isoformat()}
    return v


def dec(v):
    if isinstance(v, dict):
        if "$dt" in v:
            return dt.datetime.fromisoformat(v["$dt"])
        if "$d" in v:
            return dt.date.fromisoformat(v["$d"])
    return v


def dumps(obj) -> str:
    return json.dumps(obj, sort_keys=True, ensure_ascii=True, separators=(",", ":"))


def chash(obj) -> str:
    return hashlib.sha1(dumps(obj).encode()).hexdigest()[:16]


FAMILY = {
    "int": "int", "int8": "int", "int16": "int", "int32": "int", "int64": "int",
    "uint8": "int", "uint16": "int", "uint32": "int", "uint64": "int",
    "float": "float", "float32": "float", "float64": "float",
    "bool": "bool", "str": "str", "date": "date", "datetime": "datetime", "datetime_ms": "datetime", "datetime_ns": "datetime",
    "null": "null",
}


def family(dtype: str) -> str:
    return FAMILY[dtype]


# ---- small constructors used by generators / hand-written witnesses ----

def C(name):
    return ["col", {"c": name}]


def V(var, name):
    return ["col", {"v": var, "n": name}]


def L(v, dtype=None):
    return ["lit", enc(v)] if dtype is None else ["lit", enc(v), dtype]


def F(op, *args, **ctx):
    return ["fn", op, list(args), {k: v for k, v in ctx.items() if v is not None}]


def walk_expr(e):
    """Yield every expression node (pre-order)."""
    yield e
    k = e[0]
    if k == "fn":
        for a in e[2]:
            yield from walk_expr(a)
        ctx = e[3] if len(e) > 3 else {}
        for c in ctx.get("partition_by", []):
            yield from walk_expr(c)
        for o in ctx.get("arrange", []):
            yield from walk_expr(o[0])
        for f in ctx.get("filter", []):
            yield from walk_expr(f)
    elif k == "case":
        for c, v in e[1]:
            yield from walk_expr(c)
            yield from walk_expr(v)
        if e[2] is not None:
            yield from walk_expr(e[2])
    elif k == "map":
        yield from walk_expr(e[1])
        for keys, v in e[2]:
            for kk in keys:
                yield from walk_expr(kk)
            yield from walk_expr(v)
        if e[3] is not None:
            yield from walk_expr(e[3])
    elif k == "cast":
        yield from walk_expr(e[1])


def step_exprs(step):
    v = step["verb"]
    if v in ("mutate", "summarize"):
        return [e for _, e in step["items"]]
    if v == "filter":
        return list(step["preds"])
    if v == "arrange":
        return [k[0] for k in step["keys"]]
    if v == "join":
        return [e for e in step["on"] if not isinstance(e, str)]
    return []


AGG_OPS = {"sum", "mean", "min", "max", "any", "all", "count", "count_star", "str.join"}
WIN_OPS = {"row_number", "rank", "dense_rank", "shift", "cum_sum"}


def expr_depth(e) -> int:
    k = e[0]
    if k in ("col", "lit"):
        return 0
    kids = [x for x in walk_expr(e)][1:]
    if k == "fn":
        direct = list(e[2])
    elif k == "case":
        direct = [x for cv in e[1] for x in cv] + ([e[2]] if e[2] is not None else [])
    elif k == "map":
        direct = [e[1]] + [v for _, v in e[2]] + ([e[3]] if e[3] is not None else [])
    else:
        direct = [e[1]]
    return 1 + max([expr_depth(d) for d in direct], default=0)


def has_op(e, names) -> bool:
    return any(n[0] == "fn" and n[1] in names for n in walk_expr(e))
