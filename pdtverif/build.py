"""IR -> real pydiverse.transform objects on a chosen backend."""
from __future__ import annotations

import operator

from . import env as _env
from .ir import dec

_PL = None


def _mods():
    import polars as pl
    import sqlalchemy as sqa

    import pydiverse.transform as pdt

    return pdt, pl, sqa


def pl_dtype(dtype: str):
    import polars as pl

    return {
        "int": pl.Int64, "int8": pl.Int8, "int16": pl.Int16, "int32": pl.Int32, "int64": pl.Int64,
        "uint8": pl.UInt8, "uint16": pl.UInt16, "uint32": pl.UInt32, "uint64": pl.UInt64,
        "float": pl.Float64, "float32": pl.Float32, "float64": pl.Float64,
        "bool": pl.Boolean, "str": pl.String, "date": pl.Date, "datetime": pl.Datetime("us"),
        "datetime_ms": pl.Datetime("ms"), "datetime_ns": pl.Datetime("ns"),
        "null": pl.Null,
    }[dtype]


def pdt_dtype(dtype: str):
    import pydiverse.common as pdc
    import pydiverse.transform as pdt

    return {
        "int": pdt.Int, "int8": pdt.Int8, "int16": pdt.Int16, "int32": pdt.Int32, "int64": pdt.Int64,
        "uint8": pdt.UInt8, "uint16": pdt.UInt16, "uint32": pdt.UInt32, "uint64": pdt.UInt64,
        "float": pdt.Float, "float32": pdt.Float32, "float64": pdt.Float64,
        "bool": pdt.Bool, "str": pdt.String, "date": pdt.Date, "datetime": pdt.Datetime, "datetime_ms": pdt.Datetime, "datetime_ns": pdt.Datetime,
        "null": pdc.NullType,
    }[dtype]()


def make_frame(tb):
    import polars as pl

    cols = {}
    for j, (name, dtype) in enumerate(tb["cols"]):
        cols[name] = pl.Series(name, [dec(r[j]) for r in tb["rows"]], dtype=pl_dtype(dtype))
    return pl.DataFrame(cols)


class Backend:
    """Creates source tables for one backend kind."""

    def __init__(self, kind: str):
        self.kind = kind  # polars | sqlite | postgresql | mssql
        self.engine = None
        self.meta = None
        if kind == "sqlite":
            self.engine = _env.sqlite_engine()
        elif kind in ("postgresql", "mssql"):
            self.engine = _env.offline_engine(kind)

    def source(self, tb, name=None):
        pdt, pl, sqa = _mods()
        name = name if name is not None else tb["name"]
        if self.kind == "polars":
            return pdt.Table(make_frame(tb), name=name)
        if self.meta is None:
            self.meta = sqa.MetaData()
            self._sqa_tables = {}
        if tb["name"] not in self._sqa_tables:
            st = sqa.Table(tb["name"], self.meta, *[sqa.Column(n, _env.sqa_type(d)) for n, d in tb["cols"]])
            self._sqa_tables[tb["name"]] = st
            if self.kind == "sqlite":
                st.create(self.engine)
                if tb["rows"]:
                    names = [n for n, _ in tb["cols"]]
                    with self.engine.begin() as c:
                        c.execute(st.insert(), [dict(zip(names, [dec(v) for v in r])) for r in tb["rows"]])
        st = self._sqa_tables[tb["name"]]
        if self.kind == "sqlite":
            return pdt.Table(tb["name"], pdt.SqlAlchemy(self.engine), name=name)
        return pdt.Table(st, pdt.SqlAlchemy(self.engine), name=name)

    def close(self):
        if self.engine is not None and self.kind == "sqlite":
            self.engine.dispose()


_BIN = {
    "add": operator.add, "sub": operator.sub, "mul": operator.mul, "truediv": operator.truediv,
    "floordiv": operator.floordiv, "mod": operator.mod, "pow": operator.pow,
    "and": operator.and_, "or": operator.or_, "xor": operator.xor,
    "eq": operator.eq, "ne": operator.ne, "lt": operator.lt, "le": operator.le, "gt": operator.gt, "ge": operator.ge,
}
_UN = {"neg": operator.neg, "pos": operator.pos, "invert": operator.invert}
_METH0 = {"abs", "is_null", "is_not_null", "floor", "ceil", "exp", "log", "sqrt", "sin", "cos", "tan", "atan",
          "log10", "cbrt", "asin", "acos"}
_STR0 = {"str.len": "len", "str.upper": "upper", "str.lower": "lower", "str.strip": "strip"}
_DT = {"dt.year", "dt.month", "dt.day", "dt.hour", "dt.minute", "dt.second", "dt.day_of_week", "dt.day_of_year"}


class Builder:
    def __init__(self, case, backend: Backend):
        self.case = case
        self.backend = backend
        self.tables = {t["name"]: t for t in case["tables"]}
        self.vars = {}

    # ---- expressions ----
    def colref(self, ref):
        pdt, _, _ = _mods()
        if "c" in ref:
            return pdt.C[ref["c"]]
        return self.vars[ref["v"]][ref["n"]]

    def order(self, o):
        e = self.expr(o[0])
        desc, nulls = o[1], o[2]
        style = o[3] if len(o) > 3 else 0
        e = self._ce(e)

        def nl(x):
            return x.nulls_first() if nulls == "first" else (x.nulls_last() if nulls == "last" else x)

        def ds(x):
            if desc:
                return x.descending()
            return x.ascending() if style == 2 else x

        # syntactically different but equivalent marker orders
        return ds(nl(e)) if style == 1 else nl(ds(e))

    def ctx(self, c):
        kw = {}
        if "partition_by" in c:
            kw["partition_by"] = [self.expr(x) for x in c["partition_by"]]
        if "arrange" in c:
            kw["arrange"] = [self.order(o) for o in c["arrange"]]
        if "filter" in c:
            fs = [self.expr(x) for x in c["filter"]]
            kw["filter"] = fs if len(fs) != 1 else fs[0]
        return kw

    def lit(self, e):
        pdt, _, _ = _mods()
        v = dec(e[1])
        if len(e) > 2:
            return pdt.lit(v, pdt_dtype(e[2]))
        return v

    def expr(self, e):
        pdt, _, _ = _mods()
        k = e[0]
        if k == "col":
            return self.colref(e[1])
        if k == "lit":
            return self.lit(e)
        if k == "cast":
            x = self.expr(e[1])
            if not isinstance(x, pdt.ColExpr):
                x = pdt.lit(x)
            return x.cast(pdt_dtype(e[2]))
        if k == "case":
            w = None
            for c, v in e[1]:
                w = (pdt.when(self.expr(c)) if w is None else w.when(self.expr(c))).then(self.expr(v))
            if e[2] is not None:
                w = w.otherwise(self.expr(e[2]))
            return w
        if k == "map":
            x = self._ce(self.expr(e[1]))
            mapping = {}
            for keys, v in e[2]:
                ks = tuple(self.expr(kk) for kk in keys)
                mapping[ks if len(ks) != 1 else ks[0]] = self.expr(v)
            if e[3] is not None:
                d = self.expr(e[3])
                if d is None:
                    d = pdt.lit(None)
                return x.map(mapping, default=d)
            return x.map(mapping)
        if k == "fn":
            return self.fn(e)
        raise _env.HarnessError(f"bad expr {e!r}")

    def _ce(self, x):
        pdt, _, _ = _mods()
        return x if isinstance(x, pdt.ColExpr) else pdt.lit(x)

    def fn(self, e):
        pdt, _, _ = _mods()
        op, args = e[1], [self.expr(a) for a in e[2]]
        ctx = self.ctx(e[3]) if len(e) > 3 and e[3] else {}
        if op in _BIN:
            a, b = args
            if not isinstance(a, pdt.ColExpr) and not isinstance(b, pdt.ColExpr):
                a = pdt.lit(a)
            return _BIN[op](a, b)
        if op in _UN:
            return _UN[op](self._ce(args[0]))
        if op in _METH0:
            return getattr(self._ce(args[0]), op)()
        if op == "fill_null":
            return self._ce(args[0]).fill_null(args[1])
        if op == "is_in":
            return self._ce(args[0]).is_in(*args[1:])
        if op == "coalesce":
            return pdt.coalesce(*args)
        if op in ("hmax", "hmin", "hsum", "hany", "hall"):
            f = {"hmax": pdt.max, "hmin": pdt.min, "hsum": pdt.sum, "hany": pdt.any, "hall": pdt.all}[op]
            return f(*args)
        if op == "clip":
            return self._ce(args[0]).clip(args[1], args[2])
        if op == "round":
            return self._ce(args[0]).round(args[1]) if len(args) > 1 else self._ce(args[0]).round()
        if op in _STR0:
            return getattr(self._ce(args[0]).str, _STR0[op])()
        if op == "str.starts_with":
            return self._ce(args[0]).str.starts_with(args[1])
        if op == "str.ends_with":
            return self._ce(args[0]).str.ends_with(args[1])
        if op == "str.contains":
            return self._ce(args[0]).str.contains(args[1], allow_regex=False)
        if op == "str.replace_all":
            return self._ce(args[0]).str.replace_all(args[1], args[2])
        if op == "str.slice":
            return self._ce(args[0]).str.slice(args[1], args[2])
        if op in _DT:
            return getattr(self._ce(args[0]).dt, op[3:])()
        if op in ("sum", "mean", "min", "max", "any", "all", "count"):
            return getattr(self._ce(args[0]), op)(**ctx)
        if op == "str.join":
            return self._ce(args[0]).str.join(*args[1:], **ctx)
        if op == "count_star":
            return pdt.count(**ctx)
        if op == "row_number":
            return pdt.row_number(**ctx)
        if op == "rank":
            return pdt.rank(**ctx)
        if op == "dense_rank":
            return pdt.dense_rank(**ctx)
        if op == "shift":
            return self._ce(args[0]).shift(*args[1:], **ctx)
        if op == "cum_sum":
            return self._ce(args[0]).cum_sum(**ctx)
        raise _env.HarnessError(f"unknown op {op}")

    # ---- verbs ----
    def sel(self, ref):
        if "c" in ref:
            return ref["c"] if ref.get("s", True) else self.colref(ref)
        return self.colref(ref)

    def step(self, step):
        pdt, _, _ = _mods()
        v = step["verb"]
        if v == "source":
            t = self.backend.source(self.tables[step["table"]], name=step.get("name"))
            self.vars[step["out"]] = t
            return t
        t = self.vars[step["in"]]
        if v == "select":
            r = t >> pdt.select(*[self.sel(c) for c in step["cols"]])
        elif v == "drop":
            r = t >> pdt.drop(*[self.sel(c) for c in step["cols"]])
        elif v == "rename":
            r = t >> pdt.rename({(k if isinstance(k, str) else self.colref(k)): n for k, n in step["map"]})
        elif v == "mutate":
            r = t >> pdt.mutate(**{n: self.expr(e) for n, e in step["items"]})
        elif v == "summarize":
            r = t >> pdt.summarize(**{n: self.expr(e) for n, e in step["items"]})
        elif v == "filter":
            r = t >> pdt.filter(*[self.expr(p) for p in step["preds"]])
        elif v == "arrange":
            r = t >> pdt.arrange(*[self.order(k) for k in step["keys"]])
        elif v == "slice_head":
            r = t >> pdt.slice_head(step["n"], offset=step.get("offset", 0))
        elif v == "group_by":
            r = t >> pdt.group_by(*[self.sel(c) for c in step["cols"]], add=bool(step.get("add", False)))
        elif v == "ungroup":
            r = t >> pdt.ungroup()
        elif v == "alias":
            r = t >> pdt.alias(step.get("name"), keep_col_refs=bool(step.get("keep", False)))
        elif v == "collect":
            r = t >> pdt.collect(keep_col_refs=bool(step.get("keep", True)))
        elif v == "rematerialize":
            r = pdt.Table(t >> pdt.export(pdt.Polars()))
        elif v == "transfer":
            r = pdt.transfer_col_references(t, self.vars[step["ref"]])
        elif v == "join":
            right = self.vars[step["right"]]
            on = [o if isinstance(o, str) else self.expr(o) for o in step["on"]]
            if step.get("on_single") and len(on) == 1:
                on = on[0]
            if step.get("cross"):
                r = t >> pdt.cross_join(right, suffix=step.get("suffix"))
            else:
                r = t >> pdt.join(right, on, step["how"], suffix=step.get("suffix"))
        elif v == "union":
            right = self.vars[step["right"]]
            r = t >> pdt.union(right, distinct=bool(step.get("distinct", False)))
        else:
            raise _env.HarnessError(f"unknown verb {v}")
        self.vars[step["out"]] = r
        return r


class BuildResult:
    def __init__(self):
        self.vars = {}
        self.error = None  # (step_index, exception)
        self.steps = None  # possibly modified step list (auto_alias)
        self.subq = []  # indices where SubqueryError was raised
        self.builder = None


def build(case, kind: str, *, auto_alias=False, backend: Backend | None = None, upto=None, on_step=None) -> BuildResult:
    """Run all steps.  With auto_alias, a SubqueryError at step k inserts
    `alias(keep_col_refs=True)` before it (IR is rewritten) and continues."""
    from pydiverse.transform.errors import SubqueryError

    own = backend is None
    backend = backend or Backend(kind)
    res = BuildResult()
    steps = [dict(s) for s in case["steps"]]
    b = Builder(case, backend)
    res.builder = b
    k = 0
    n_alias = 0
    while k < len(steps):
        if upto is not None and k >= upto:
            break
        st = steps[k]
        try:
            b.step(st)
            if on_step is not None:
                on_step(st, b)
        except SubqueryError as ex:
            if not auto_alias or st.get("_aliased"):
                res.error = (k, ex)
                break
            res.subq.append(k)
            n_alias += 1
            variants = [("in",)]
            if "right" in st:
                variants += [("right",), ("in", "right")]
            done, last = False, ex
            for variant in variants:
                pre, st2 = [], dict(st)
                for side in variant:
                    old = st[side]
                    new_var = f"{old}~a{n_alias}{side[0]}"
                    pre.append({"out": new_var, "verb": "alias", "in": old, "keep": True, "_auto": True})
                    st2[side] = new_var
                try:
                    for p in pre:
                        b.step(p)
                        if on_step is not None:
                            on_step(p, b)
                    b.step(st2)
                    if on_step is not None:
                        on_step(st2, b)
                except SubqueryError as ex2:
                    last = ex2
                    continue
                except BaseException as ex2:  # noqa: BLE001
                    if isinstance(ex2, (KeyboardInterrupt, SystemExit, GeneratorExit)) or type(ex2).__name__ == "CaseTimeout":
                        raise
                    res.error = (k, ex2)
                    steps[k : k + 1] = pre + [st2]
                    break
                st2["_aliased"] = True
                steps[k : k + 1] = pre + [st2]
                k += len(pre) + 1
                done = True
                break
            if res.error is not None:
                break
            if not done:
                res.error = (k, last)
                break
            continue
        except BaseException as ex:  # noqa: BLE001 - recorded, classified by the check
            if isinstance(ex, (KeyboardInterrupt, SystemExit, GeneratorExit)) or type(ex).__name__ == "CaseTimeout":
                raise
            res.error = (k, ex)
            break
        k += 1
    res.vars = b.vars
    res.steps = steps
    res.backend = backend
    return res


ENGINE_PANICS = {"polars_optimizer_panic": 0}


def export_polars(tbl):
    pdt, _, _ = _mods()
    try:
        return tbl >> pdt.export(pdt.Polars())
    except BaseException as ex:  # noqa: BLE001
        # a panic inside the Polars optimizer is an engine bug by definition (DESIGN 4.15 g): if the same lazy plan
        # collects without the optimizer, that result stands in
        if type(ex).__name__ != "PanicException":
            raise
        try:
            df = export_polars_noopt(tbl)
        except BaseException:  # noqa: BLE001
            raise ex from None
        ENGINE_PANICS["polars_optimizer_panic"] += 1
        return df


def export_polars_noopt(tbl):
    """Collect the lazy plan without the Polars optimizer (to tell optimizer bugs of the engine
    from defects of the library, DESIGN §4.15)."""
    import polars as pl

    pdt, _, _ = _mods()
    lf = tbl >> pdt.export(pdt.Polars(lazy=True))
    return lf.collect(optimizations=pl.QueryOptFlags.none())
