"""Value and table strategies (DESIGN §3, §4)."""
from __future__ import annotations

import datetime as dt

from hypothesis import strategies as st

from .ir import enc

ALPHA = list("abAB") + list("01") + [" ", "'", '"', "\\", "%", "_", "/", "-", ";", ".", "$", "(", ")", "[", "]", "|",
                                     "*", "+", "?", "^", "{", "}", "\n", "\t", "é", "ß", "ü", "日", "x", "Z"]
ALPHA_PLAIN = list("abcxyzABC012 ")
NAME_POOL = ["a", "b", "c", "d", "x", "y", "k"]
NEW_NAMES = ["a", "b", "c", "d", "x", "y", "k", "p", "q", "a_r", "b_r", "a_t1", "b_t1", "a_t1_1", "id"]

SMALL_INTS = [0, 1, -1, 2, -2, 3, 7, -7, 10, 65, -65, 100]


def ints(key_like=False):
    if key_like:
        return st.sampled_from([0, 1, 2, 3])
    return st.one_of(st.sampled_from(SMALL_INTS), st.integers(-20, 20), st.integers(-(2**20), 2**20))


def floats(key_like=False):
    if key_like:
        return st.sampled_from([0.0, 0.5, 1.0, -1.5])
    return st.builds(lambda k, j: k / (2**j), st.one_of(st.integers(-64, 64), st.integers(-(2**16), 2**16)),
                     st.integers(0, 4)).map(lambda x: 0.0 if x == 0 else x)


def strs(key_like=False, plain=False):
    if key_like:
        return st.sampled_from(["a", "b", "A", ""])
    alpha = ALPHA_PLAIN if plain else ALPHA
    return st.lists(st.sampled_from(alpha), min_size=0, max_size=6).map("".join)


def dates(key_like=False):
    if key_like:
        return st.sampled_from([dt.date(2000, 1, 1), dt.date(2000, 1, 2), dt.date(1999, 12, 31)])
    return st.one_of(
        st.sampled_from([dt.date(1900, 1, 1), dt.date(2100, 12, 31), dt.date(2000, 2, 29), dt.date(1970, 1, 1)]),
        st.dates(dt.date(1900, 1, 1), dt.date(2100, 12, 31)),
    )


def datetimes(key_like=False):
    if key_like:
        return st.sampled_from([dt.datetime(2000, 1, 1, 0, 0, 0), dt.datetime(2000, 1, 1, 12, 30, 5),
                                dt.datetime(1999, 12, 31, 23, 59, 59)])
    return st.builds(
        lambda d, s: dt.datetime(d.year, d.month, d.day) + dt.timedelta(seconds=s),
        dates(), st.one_of(st.just(0), st.integers(0, 86399)),
    )


def bools(key_like=False):
    return st.booleans()


VALUE = {"int": ints, "float": floats, "bool": bools, "str": strs, "date": dates, "datetime": datetimes}
SRC_DTYPE = {"int": "int64", "float": "float64", "bool": "bool", "str": "str", "date": "date", "datetime": "datetime"}


def value_of(fam, key_like=False, **kw):
    return VALUE[fam](key_like, **kw) if fam == "str" else VALUE[fam](key_like)


@st.composite
def column(draw, fam, n, *, nullable=None, key_like=None, plain_str=False):
    if nullable is None:
        nullable = draw(st.booleans())
    if key_like is None:
        key_like = draw(st.integers(0, 9)) < 4
    base = VALUE[fam](key_like, plain=plain_str) if fam == "str" else VALUE[fam](key_like)
    elem = st.one_of(st.none(), base, base) if nullable else base
    vals = draw(st.lists(elem, min_size=n, max_size=n))
    if nullable and n >= 3 and draw(st.integers(0, 19)) == 0:
        vals = [None] * n  # all-null column
    return vals


@st.composite
def height(draw, allow_tall=False):
    r = draw(st.integers(0, 99))
    if r < 8:
        return 0
    if r < 16:
        return 1
    if allow_tall and r < 19:
        return draw(st.integers(101, 130))
    return draw(st.integers(2, 12))


# uint64 is left out: K06 (open finding, Polars computes Int64 x UInt64 arithmetic in Float64)
SIZED = {"int": ["int64", "int64", "int32", "int16", "int8", "uint8", "uint16", "uint32"],
         "float": ["float64", "float64", "float32"],
         # the time unit of a Polars source frame (the library normalises every unit to microseconds)
         "datetime": ["datetime", "datetime", "datetime_ms", "datetime_ns"]}


@st.composite
def table(draw, name, *, fams=("int", "float", "bool", "str", "date", "datetime"), min_cols=2, max_cols=5,
          allow_tall=False, n=None, names=None, plain_str=False, with_id=True, sized=False):
    n = draw(height(allow_tall)) if n is None else n
    ncols = draw(st.integers(min_cols, max_cols))
    if names is None:
        names = draw(st.permutations(NAME_POOL))[:ncols]
    cols = []
    data = []
    if with_id:
        cols.append(["id", "int64"])
        ids = list(range(1, n + 1))
        if n > 1 and draw(st.booleans()):
            ids = list(draw(st.permutations(ids)))
        data.append(ids)
    tall = n > 100
    for cn in names:
        fam = draw(st.sampled_from(fams))
        vals = draw(column(fam, n, plain_str=plain_str))
        dtype = SRC_DTYPE[fam]
        if sized and fam in SIZED:
            dtype = draw(st.sampled_from(SIZED[fam]))
            if fam in ("int", "float") and dtype not in ("int64", "float64"):
                # small magnitudes that every width (and float32) represents exactly
                vals = [None if v is None else (abs(int(v)) % 100 if fam == "int" else float(int(v * 4) % 400) / 4) for v in vals]
        if tall and draw(st.booleans()):
            # long null prefix (schema inference of the SQL export path)
            k = draw(st.integers(100, n - 1))
            vals = [None] * k + [v for v in vals[k:]]
        cols.append([cn, dtype])
        data.append(vals)
    rows = [[enc(col[i]) for col in data] for i in range(n)]
    return {"name": name, "cols": cols, "rows": rows}


@st.composite
def tables(draw, k=None, **kw):
    k = draw(st.integers(1, 3)) if k is None else k
    return [draw(table(f"t{i}", **kw)) for i in range(k)]
