"""C08 — SQL: a verb needing a subquery raises SubqueryError or is compiled correctly (DESIGN §6 C08)."""
from __future__ import annotations

from hypothesis import strategies as st

from .. import build, pipegen
from ..exprgen import Cfg
from ..ir import AGG_OPS, WIN_OPS, has_op, step_exprs
from ..pipeline_oracle import classify_case, examine_pipeline, exc_name
from ..runner import Outcome
from . import Check

GENERAL = {"filter": 10, "mutate": 14, "summarize": 9, "slice_head": 9, "arrange": 7, "group_by": 6, "ungroup": 2,
           "select": 3, "rename": 3, "join": 6, "union": 5, "alias": 4, "drop": 1, "collect": 0}
RESTRICTED = {"filter": 10, "mutate": 10, "select": 5, "rename": 5, "arrange": 6, "drop": 2, "summarize": 0, "slice_head": 0,
              "group_by": 0, "ungroup": 0, "join": 0, "union": 0, "alias": 0, "collect": 0}


@st.composite
def c08_case(draw, tier):
    deep = tier == "thorough"
    r = draw(st.integers(0, 9))
    if r < 4:
        cfg = pipegen.PCfg(weights=GENERAL, max_len=10 if deep else 7, min_len=3, expr=Cfg(max_depth=2), sub_len=2)
        case = draw(pipegen.pipeline_case(cfg))
        case["mode"] = "general"
        return case
    if r < 8:
        return _directed(draw, deep)
    # restricted grammar: element-wise mutate/filter, select, rename, arrange, one grouped summarize, final slice_head
    cfg = pipegen.PCfg(weights=RESTRICTED, max_len=6, min_len=1, agg_in_mutate=False, win_in_mutate=False, max_tables=1,
                       expr=Cfg(max_depth=2))
    g = pipegen.PipeGen(draw, cfg)
    var = g.source()
    var = g.extend(var, draw(st.integers(1, 4)))
    if draw(st.booleans()):
        gv = g.v_group_by(var)
        if gv is not None:
            sv = g.v_summarize(gv)
            var = sv if sv is not None else var
            if g.t(var).group:
                var = g.emit({"out": g.new_var(), "verb": "ungroup", "in": var})
            var = g.extend(var, draw(st.integers(0, 3)))
    if draw(st.booleans()):
        sv = g.v_slice_head(var)
        var = sv if sv is not None else var
    case = g.case
    case["result"] = var
    case["mode"] = "restricted"
    case["_gen"] = {"skipped": g.skipped, "gen_rejects": g.gen_rejects, "classes": sorted(g.classes), "excluded": g.excluded}
    return case


STATE = ["window", "window", "window", "slice", "filter", "group_window", "summarize", "join"]
TRIGGER = ["filter", "filter", "filter", "slice_head", "mutate_window", "summarize", "arrange", "group_summarize", "join", "union"]


def _directed(draw, deep):
    """optionally alias() -> state (window column / slice / filter / grouped window / summarize / join) -> optionally hide the new columns
    (select, drop, overwrite, rename) -> optionally alias() -> a verb that may need a subquery -> the hidden columns are
    copied into visible ones, so that whatever the SELECT merged or dropped shows up in the result."""
    cfg = pipegen.PCfg(weights=GENERAL, max_len=3, min_len=0, expr=Cfg(max_depth=2), sub_len=1, win_direct=8, expose=0)
    g = pipegen.PipeGen(draw, cfg)
    var = g.source()

    def step(fn, *a, **kw):
        nonlocal var
        try:
            v2 = fn(var, *a, **kw)
        except (pipegen.OutOfDomain, pipegen.GenSkip):
            v2 = None
        if v2 is not None:
            var = v2
        return v2

    if draw(st.integers(0, 3)) == 0:
        var = g.extend(var, 1)
    new_cols = []
    if draw(st.integers(0, 3)) == 0:
        # an alias() *below* the state: it must not count as the subquery boundary for what follows the state
        step(g.v_alias)
        g.classes.add("directed:alias_below_state")
    for what in draw(st.lists(st.sampled_from(STATE), min_size=1, max_size=2)):
        before = {c for _, c in g.t(var).visible}
        if what == "window":
            step(g.v_mutate)
        elif what == "slice":
            step(g.v_arrange)
            step(g.v_slice_head)
        elif what == "filter":
            step(g.v_filter)
        elif what == "group_window":
            if step(g.v_group_by) is not None:
                step(g.v_mutate)
                if draw(st.booleans()):
                    step(lambda v: g.emit({"out": g.new_var(), "verb": "ungroup", "in": v}))
        elif what == "summarize":
            if draw(st.booleans()):
                step(g.v_group_by)
            step(g.v_summarize)
        elif what == "join":
            step(g.v_join)
        new_cols += [(n, c) for n, c in g.t(var).visible if c not in before]
    # hide
    hide = draw(st.sampled_from(["none", "select", "select", "drop", "drop", "overwrite", "rename"]))
    t = g.t(var)
    # (K03, open finding: the columns of an ungrouped summarize are not hidden by the hand-written steps)
    live = [(n, c) for n, c in new_cols if (n, c) in t.visible and c not in t.group and c not in t.agg_cols]
    if live and hide != "none" and len(t.visible) > len(live):
        if hide in ("select", "drop"):
            names = {n for n, _ in live}
            if hide == "drop":
                step(lambda v: g.emit({"out": g.new_var(), "verb": "drop", "in": v, "cols": [{"c": n} for n in sorted(names)]}))
            else:
                keep = [{"c": n} for n, _ in t.visible if n not in names]
                step(lambda v: g.emit({"out": g.new_var(), "verb": "select", "in": v, "cols": keep}))
        elif hide == "overwrite":
            n0, c0 = live[0]
            lit = {"int": 0, "float": 0.5, "bool": True, "str": "o"}.get(t.fam[c0])
            if lit is not None:
                step(lambda v: g.emit({"out": g.new_var(), "verb": "mutate", "in": v, "items": [[n0, ["lit", lit]]]}))
        else:
            step(g.v_rename)
    if draw(st.integers(0, 3)) == 0:
        step(g.v_alias)
    g.cfg.win_direct = 9
    trig = draw(st.sampled_from(TRIGGER))
    if trig == "filter":
        step(g.v_filter)
    elif trig == "slice_head":
        step(g.v_arrange)
        step(g.v_slice_head)
    elif trig == "mutate_window":
        step(g.v_mutate)
    elif trig == "summarize":
        step(g.v_summarize)
    elif trig == "arrange":
        step(g.v_arrange)
    elif trig == "group_summarize":
        if step(g.v_group_by) is not None:
            step(g.v_summarize)
    elif trig == "join":
        step(g.v_join)
    elif trig == "union":
        step(g.v_union)
    g.cfg.win_direct = 2
    made = {c for _, c in new_cols}
    if draw(st.integers(0, 3)) > 0:
        var = g.expose_hidden(var, k=3, prefer=made)
    var = g.extend(var, draw(st.integers(0, 3 if deep else 2)))
    if draw(st.integers(0, 2)) == 0:
        var = g.expose_hidden(var, k=2, prefer=made)
    case = g.case
    case["result"] = var
    case["mode"] = "directed"
    case["_gen"] = {"skipped": g.skipped, "gen_rejects": g.gen_rejects, "classes": sorted(g.classes | {"trigger:" + trig}),
                    "excluded": g.excluded}
    return case


def _interesting(case):
    """History contains one of the orders the statement names."""
    cls = set()
    seen_window = seen_slice = seen_summ = False
    for s in case["steps"]:
        v = s["verb"]
        ft = any(has_op(e, AGG_OPS | WIN_OPS) for e in step_exprs(s))
        if v == "filter" and seen_window:
            cls.add("filter_after_window")
        if v == "mutate" and ft and seen_slice:
            cls.add("window_after_slice")
        if v == "slice_head" and seen_slice:
            cls.add("two_slices")
        if v == "summarize" and seen_summ:
            cls.add("summarize_after_summarize")
        if seen_slice and v not in ("slice_head", "source", "alias"):
            cls.add("verb_after_slice")
        if v in ("join", "union"):
            cls.add("join_or_union")
        if v == "mutate" and ft:
            seen_window = True
        if v == "slice_head":
            seen_slice = True
        if v == "summarize":
            seen_summ = True
    return cls


class C08(Check):
    ID = "C08"
    RULE = ("Hypothesis composite strategy producing verb histories on a SQLite-backed and a Polars-backed twin: 40% general "
            "orders of filter / window-or-aggregate mutate / summarize / slice_head / arrange / group_by / join / union / "
            "alias; 40% directed histories (a state-creating verb - window column, slice, filter, grouped window, summarize, "
            "join - then optionally hiding the new columns by select / drop / overwrite / rename, optionally alias(), then a "
            "verb that may need a subquery, then copying the hidden columns into visible ones and more verbs); 20% the "
            "restricted grammar (element-wise mutate/filter, select, rename, arrange, one grouped summarize, "
            "final slice_head). Oracle: (1) a SQL verb call succeeds or raises SubqueryError (anything else is a failure); "
            "(2) after SubqueryError the same verb behind alias() (left, right or both operands) is accepted; (3) every "
            "accepted pipeline exports the same table as Polars and as the reference; (4) restricted histories never raise "
            "SubqueryError; (5) the Polars twin never raises it. non-trivial = history contains filter after a window "
            "column, window after slice_head, two slice_heads, summarize after summarize, a verb after slice_head or a "
            "join/union, and SQL accepted a verb after it")
    N = {"quick": 3000, "thorough": 80000}

    def strategy(self, tier):
        return c08_case(tier)

    def examine(self, case) -> Outcome:
        out = Outcome()
        classify_case(case, out)
        mode = case.get("mode", "general")
        out.classes.append("mode:" + mode)
        run = examine_pipeline(case, out, differential=True)
        sql = run.built.get("sqlite")
        if sql is not None:
            if sql.error is not None and exc_name(sql.error[1]) == "SubqueryError":
                k, ex = sql.error
                out.fail("alias-no-help", f"sqlite:{sql.steps[k]['verb']}",
                         f"`{sql.steps[k]['verb']}` raised SubqueryError and still does behind alias(): {str(ex)[:300]}")
            if mode == "restricted" and sql.subq:
                k = sql.subq[0]
                out.fail("needless-subquery", f"sqlite:{case['steps'][k]['verb']}",
                         f"restricted-grammar pipeline raised SubqueryError at step {k} ({case['steps'][k]['verb']})")
        pl = run.built.get("polars")
        if pl is not None and pl.error is not None and exc_name(pl.error[1]) == "SubqueryError":
            out.fail("polars-subquery-error", "polars", "the Polars twin raised SubqueryError")
        cls = _interesting(case)
        out.classes += ["order:" + c for c in sorted(cls)]
        accepted = sql is not None and sql.error is None
        out.nontrivial = out.discard is None and bool(cls) and accepted
        if mode == "restricted":
            out.nontrivial = out.discard is None and accepted and len(case["steps"]) >= 4
        return out


CHECK = C08()
