"""C17 — casts follow the documented conversion table (DESIGN §6 C17)."""
from __future__ import annotations

import datetime as dt
import itertools
import uuid

from hypothesis import strategies as st

from .. import data, env as _env
from ..ir import enc
from ..pipeline_oracle import classify_case, examine_pipeline
from ..runner import Outcome
from . import Check

INTS = ["int8", "int16", "int32", "int64", "uint8", "uint16", "uint32", "uint64"]
FLOATS = ["float32", "float64"]
VALUE_GRID = {
    "float64": [None, 0.0, -0.5, 0.5, 1.5, -1.5, 2.75, -2.75, 99.0, -100.0, 12345.25, -0.0625, 1e6, 123456.5],
    "int64": [None, 0, 1, -1, 7, -7, 100, -128, 127, 32767, 2**20, -(2**20)],
    "bool": [None, True, False],
    "str_int": [None, "0", "1", "-1", "+5", "007", "-042", "123456"],
    # numerals beyond 2**53: an integer parse must not go through a double
    "str_bigint": [None, "9007199254740993", "-9007199254740993", "999999999999999999", "4611686018427387905"],
    "str_float": [None, "0", "1.5", "-2.25", "+3.0", "007.50", "1e3", "-1.5E2", "12"],
    "date": [None, dt.date(2000, 2, 29), dt.date(1900, 1, 1), dt.date(2100, 12, 31), dt.date(1970, 1, 1)],
    "datetime": [None, dt.datetime(2000, 2, 29, 13, 14, 15), dt.datetime(1999, 12, 31, 23, 59, 59), dt.datetime(1970, 1, 1)],
}
VALUE_GRID["datetime_ms"] = VALUE_GRID["datetime"]  # Polars source frames with another time unit than microseconds
VALUE_GRID["datetime_ns"] = VALUE_GRID["datetime"]
TARGETS = {
    "float64": ["int64", "int32", "int16", "int8", "float32", "str"],
    "int64": ["float64", "float32", "str", "int32", "int16", "int8"],
    "bool": ["int64", "int8", "float64"],
    "str_int": ["int64", "int32", "float64"],
    "str_bigint": ["int64"],
    "str_float": ["float64"],
    "date": ["datetime", "str"],
    "datetime": ["date", "str"],
    "datetime_ms": ["date", "str"],
    "datetime_ns": ["date", "str"],
}
SRC = {"str_int": "str", "str_float": "str", "str_bigint": "str"}


def value_cases():
    """One mutate per (source kind, target): only values whose conversion is defined (DESIGN §4.11) - a
    narrowing cast that overflows raises on Polars for the whole column."""
    from ..ir import family
    from ..refsem import UNDEF, cast_value

    S0 = {"out": "v0", "verb": "source", "table": "t0"}
    for src, vals in VALUE_GRID.items():
        dtype = SRC.get(src, src)
        for t in TARGETS[src]:
            ok = [v for v in vals if cast_value(v, family(dtype), t) is not UNDEF]
            tb = {"name": "t0", "cols": [["id", "int64"], ["c", dtype]], "rows": [[i + 1, enc(v)] for i, v in enumerate(ok)]}
            items = [[f"t_{t}", ["cast", ["col", {"c": "c"}], t]]]
            yield f"col:{src}->{t}", {"tables": [tb], "steps": [S0, {"out": "v1", "verb": "mutate", "in": "v0", "items": items}], "result": "v1"}, len(ok)
            tb1 = {"name": "t0", "cols": [["id", "int64"]], "rows": [[1], [2]]}
            items = [[f"l{k}", ["cast", ["lit", enc(v)], t]] for k, v in enumerate(ok) if v is not None]
            if items:
                yield f"lit:{src}->{t}", {"tables": [tb1], "steps": [S0, {"out": "v1", "verb": "mutate", "in": "v0", "items": items}],
                                          "result": "v1"}, 2 * len(items)


CHAINS = {
    "float64": [("int64", "float64"), ("int64", "str"), ("int32", "float64"), ("float32", "float64"), ("int64", "int8")],
    "int64": [("float64", "str"), ("float64", "int64"), ("str", "int64"), ("str", "float64"), ("float32", "str"), ("int32", "float64")],
    "bool": [("int64", "float64"), ("int64", "str"), ("float64", "str")],
    "str_int": [("int64", "float64"), ("int64", "str"), ("float64", "str")],
    "str_float": [("float64", "int64"), ("float64", "str")],
    "date": [("datetime", "date"), ("datetime", "str")],
    "datetime": [("date", "datetime"), ("date", "str")],
}


def chain_cases():
    """x.cast(A).cast(B): each step is a cast of its own (a float column cast to Int and back is truncated, an Int
    column cast to Float and then String prints as a float, a Datetime cast to Date and back is midnight).  The source
    is referenced once through the table (typed column) and once through `C.`."""
    from ..ir import family
    from ..refsem import UNDEF, cast_value

    S0 = {"out": "v0", "verb": "source", "table": "t0"}
    for src, chains in CHAINS.items():
        dtype = SRC.get(src, src)
        for t1, t2 in chains:
            ok = []
            for v in VALUE_GRID[src]:
                w = cast_value(v, family(dtype), t1)
                if w is UNDEF or cast_value(w, family(t1), t2) is UNDEF:
                    continue
                ok.append(v)
            tb = {"name": "t0", "cols": [["id", "int64"], ["c", dtype]], "rows": [[i + 1, enc(v)] for i, v in enumerate(ok)]}
            items = [["by_ref", ["cast", ["cast", ["col", {"v": "v0", "n": "c"}], t1], t2]],
                     ["by_name", ["cast", ["cast", ["col", {"c": "c"}], t1], t2]]]
            yield f"chain:{src}->{t1}->{t2}", {"tables": [tb], "steps": [S0, {"out": "v1", "verb": "mutate", "in": "v0", "items": items}],
                                              "result": "v1"}, 2 * len(ok)


def doc_table_accepts(src, tgt):
    """The documented conversion table (ColExpr.cast docstring + property statement), encoded independently of
    the code.  True / False, or None where the documentation says nothing (Decimal, Enum, List, Time, Duration,
    sized strings): no assertion is made there."""
    import pydiverse.common as pc

    undetermined = (pc.Decimal, pc.Enum, pc.List)
    if isinstance(src, undetermined) or isinstance(tgt, undetermined):
        return None
    if (isinstance(src, pc.String) and src.max_length is not None) or (isinstance(tgt, pc.String) and tgt.max_length is not None):
        return None

    def is_int(t):
        return t.is_int()

    def is_sized_int(t):
        return t.is_int() and type(t) is not pc.Int

    def is_float(t):
        return t.is_float()

    def is_sized_float(t):
        return type(t) in (pc.Float32, pc.Float64)

    num_target = is_sized_int(tgt) or is_sized_float(tgt)
    if isinstance(src, pc.String) and num_target:
        return True
    if (is_float(src) or is_int(src) or isinstance(src, pc.Bool)) and num_target:
        return True
    if (is_int(src) or is_float(src)) and tgt == pc.String():
        return True
    if isinstance(src, (pc.Date, pc.Datetime)) and tgt == pc.String():
        return True
    if isinstance(src, pc.Datetime) and isinstance(tgt, pc.Date):
        return True
    if isinstance(src, pc.Date) and isinstance(tgt, pc.Datetime):
        return True
    return False


def acceptance_matrix():
    """Complete (source, target) matrix. Returns (n, failures)."""
    from pydiverse.transform._internal.errors import DataTypeError
    from pydiverse.transform._internal.ops.op import Ftype
    from pydiverse.transform._internal.tree import types
    from pydiverse.transform._internal.tree.col_expr import Col

    from .c13 import universe

    U = universe()
    targets = [t for t in U if not types.is_const(t)]
    n, failures, accepted, samples = 0, [], 0, []
    for src in U:
        for tgt in targets:
            n += 1
            col = Col("c", None, uuid.uuid1(), src, Ftype.ELEMENT_WISE)
            try:
                e = col.cast(tgt)
                got = "ok"
                rt = e.dtype()
            except DataTypeError:
                got = "rejected"
            except Exception as ex:  # noqa: BLE001
                failures.append(("internal-error", repr(src), repr(tgt), f"{type(ex).__name__}: {ex}"))
                continue
            base = types.without_const(src)
            implicit = False
            try:
                implicit = types.converts_to(base, tgt)
            except Exception:  # noqa: BLE001
                implicit = False
            doc = doc_table_accepts(base, tgt)
            want = None if doc is None else (doc or implicit or repr(base) == repr(tgt))
            if got == "ok":
                accepted += 1
                if len(samples) < 4:
                    samples.append({"source": repr(src), "target": repr(tgt), "result": repr(rt)})
                if types.is_const(src) != types.is_const(rt):
                    failures.append(("constness", repr(src), repr(tgt), f"cast result {rt!r} does not keep the constness of the source"))
                if repr(types.without_const(rt)) != repr(tgt):
                    failures.append(("result-type", repr(src), repr(tgt), f"cast result type is {rt!r}"))
            if want is not None and (got == "ok") != want:
                failures.append(("acceptance", repr(src), repr(tgt),
                                 f"cast {src!r} -> {tgt!r} is {got}, the documented table says {'accepted' if want else 'rejected'}"))
    return n, accepted, failures, samples


class C17(Check):
    ID = "C17"
    RULE = ("(a) complete acceptance matrix: x.cast(T) for every source type of the 50-type universe (plain and const) and "
            "every plain target type: accepted iff the pair is in the documented table (encoded independently from the "
            "docstring) or an implicit conversion, rejection is DataTypeError at construction, result type = target with the "
            "source's constness; (b) value grid: for every accepted executable pair boundary values (negative fractions, "
            "zero, large magnitudes, numerals with sign / leading zeros / exponent, null) as columns and as literals, two-step "
            "chains x.cast(A).cast(B) incl. round trips A->B->A through a table reference and through C., plus "
            "Hypothesis-generated pipelines containing casts; oracle: reference conversion value on Polars and SQLite. "
            "non-trivial = value negative, fractional, zero-padded or null (every grid mutate contains such values)")
    N = {"quick": 1500, "thorough": 40000}

    def strategy(self, tier):
        from .. import pipegen
        from ..exprgen import Cfg

        cfg = pipegen.PCfg(weights={k: 0 for k in pipegen.DEFAULT_WEIGHTS} | {"mutate": 6, "filter": 2, "arrange": 1}, max_len=3,
                           min_len=1, agg_in_mutate=False, win_in_mutate=False, max_tables=1, expr=Cfg(max_depth=3, casts=True))
        return pipegen.pipeline_case(cfg)

    def examine(self, case) -> Outcome:
        out = Outcome()
        if "matrix_pair" in case:
            n, acc, failures, _ = acceptance_matrix()
            for kind, s, t, msg in failures:
                if [s, t] == case["matrix_pair"]:
                    out.fail(kind, f"{s}->{t}", msg)
            return out
        classify_case(case, out)
        examine_pipeline(case, out)
        from ..ir import step_exprs, walk_expr

        has_cast = any(nd[0] == "cast" for s in case["steps"] for e in step_exprs(s) for nd in walk_expr(e))
        out.nontrivial = out.discard is None and (bool(case.get("_grid")) or has_cast)
        if case.get("_grid"):
            out.classes.append("grid:" + case["_grid"].split(":")[0])
        return out

    def extra_parts(self, tier, base_seed, stats):
        n, accepted, failures, samples = acceptance_matrix()
        stats.evaluations += n
        for kind, s, t, msg in failures:
            stats.failures.append((f"{kind}|{s}->{t}", {"matrix_pair": [s, t]}, {"kind": kind, "key": f"{s}->{t}", "message": msg, "extra": {}}))
        cells = 0
        for label, case, ncells in itertools.chain(value_cases(), chain_cases()):
            case["_grid"] = label
            out = self.examine(case)
            stats.add(case, out)
            cells += ncells
        return {"acceptance_matrix": {"pairs": n, "accepted": accepted, "exhaustive": True, "samples": samples},
                "value_grid_cells_per_backend": cells}


CHECK = C17()
