"""C15 — equivalent pipelines give identical results (DESIGN §6 C15)."""
from __future__ import annotations

import copy

from hypothesis import strategies as st

from .. import build, oracle, pipegen, refsem
from ..exprgen import Cfg, ExprGen, Scope, evaluate, lit_of
from ..pipeline_oracle import engine_quirk, exc_name, is_refusal, reraise_control
from ..refsem import UNDEF, OutOfDomain, RefReject
from ..ir import walk_expr
from ..runner import Outcome
from . import Check

EQUIVS = ["mutate_split", "filter_split", "window_notation", "drop_select", "rename_inverse", "slice_chain", "join_cross_filter",
          "map_when", "is_in_or", "union_swap"]
PREFIX_W = {"select": 4, "rename": 4, "mutate": 8, "filter": 6, "arrange": 3, "drop": 2, "alias": 2, "group_by": 0, "ungroup": 0,
            "summarize": 1, "join": 2, "slice_head": 1, "union": 1, "collect": 0}


@st.composite
def c15_case(draw, tier):
    deep = tier == "thorough"
    eq = draw(st.sampled_from(EQUIVS))
    cfg = pipegen.PCfg(weights=PREFIX_W, max_len=5 if deep else 3, min_len=0, max_tables=2, sub_len=1, agg_in_mutate=False,
                       win_in_mutate=False, expr=Cfg(max_depth=3 if deep else 2))
    g = pipegen.PipeGen(draw, cfg)
    p = g.source()
    p = g.extend(p, draw(st.integers(0, cfg.max_len)))
    if g.t(p).group:
        p = g.emit({"out": g.new_var(), "verb": "ungroup", "in": p})
    case = g.case
    t = g.t(p)
    sc = Scope(g.env, t, captures=True, c_refs=False)  # captured references: independent of names created on the way
    eg = ExprGen(draw, sc, cfg.expr)
    L, R = [], []
    polars_only = False

    def expr(fam, depth=2, **kw):
        e = eg.gen(fam, depth, **kw)
        try:
            vec = evaluate(g.env, t, e, "mutate")
        except (OutOfDomain, RefReject):
            return eg.leaf(fam)
        return e

    def V(name):
        out = f"{name}{len(L) + len(R)}"
        return out

    if eq == "mutate_split":
        k = draw(st.integers(2, 3))
        agg_names = {n for n, c in t.visible if c in t.agg_cols}  # (K03: the columns of an ungrouped summarize stay)
        names = [n for n in draw(st.permutations(["p", "q", "zz1", "zz2", "a", "b"])) if n not in agg_names][:k]
        items = [[n, expr(draw(st.sampled_from(["int", "float", "bool", "str"])))] for n in names]
        grouped = bool(sc.vis_refs) and draw(st.integers(0, 2)) == 0
        if grouped:
            # grouped variant: one argument overwrites the grouping column, another one is an aggregate / window
            # function that takes its partitioning from the enclosing group_by - in one call every argument sees the
            # input table, and call by call the table must stay grouped by the (now hidden) old column
            gref, gcid, _ = draw(st.sampled_from(sc.vis_refs))
            gname = next(n for n, c in t.visible if c == gcid)
            gp = g.emit({"out": g.new_var(), "verb": "group_by", "in": p, "cols": [gref], "add": False})
            x = expr(draw(st.sampled_from(["int", "float"])), 1)
            if gp is None or gname in agg_names or not any(nd[0] == "col" for nd in walk_expr(x)):
                grouped = False
            else:
                p = gp
                wfn = draw(st.sampled_from(["sum", "max", "min", "count"]))
                items = [[gname, items[0][1]], ["zzw", ["fn", wfn, [x], {}]]] + [it for it in items[1:] if it[0] != gname][:1]
                items = list(draw(st.permutations(items)))
                g.classes.add("mutate_split_grouped")
        L = [{"out": "L1", "verb": "mutate", "in": p, "items": items}]
        prev = p
        for i, it in enumerate(items):
            R.append({"out": f"R{i + 1}", "verb": "mutate", "in": prev, "items": [it]})
            prev = f"R{i + 1}"
        if grouped:
            eq = "mutate_split_grouped"
            L.append({"out": "L2", "verb": "ungroup", "in": "L1"})
            R.append({"out": f"R{len(items) + 1}", "verb": "ungroup", "in": prev})
    elif eq == "filter_split":
        k = draw(st.integers(2, 3))
        preds = []
        for _ in range(k):
            e = expr("bool")
            try:
                if any(v is UNDEF for v in evaluate(g.env, t, e, "plain").vals):
                    e = ["fn", "is_not_null", [eg.leaf("int")], {}]
            except (OutOfDomain, RefReject):
                e = ["lit", True]
            preds.append(e)
        L = [{"out": "L1", "verb": "filter", "in": p, "preds": preds}]
        prev = p
        for i, pr in enumerate(preds):
            R.append({"out": f"R{i + 1}", "verb": "filter", "in": prev, "preds": [pr]})
            prev = f"R{i + 1}"
    elif eq == "window_notation":
        if not sc.vis_refs or not sc.id_refs:
            eq = "drop_select"
        else:
            gref = draw(st.sampled_from(sc.vis_refs))[0]
            okeys = [[["col", draw(st.sampled_from(sc.vis_refs))[0]], draw(st.booleans()), draw(st.sampled_from(["first", "last"])), 0]]
            okeys += [[["col", r], False, None, 0] for r in sc.id_refs]
            fam = draw(st.sampled_from(["int", "float"]))
            x = expr(fam, 1)
            fkind = draw(st.sampled_from(["shift", "row_number", "sum", "max", "rank_explicit"]))
            if fkind == "shift":
                fl = ["fn", "shift", [x, ["lit", draw(st.integers(-2, 2))]], {}]
                fr = ["fn", "shift", [x, fl[2][1]], {"partition_by": [["col", gref]], "arrange": okeys}]
                polars_only = True
            elif fkind == "row_number":
                fl = ["fn", "row_number", [], {}]
                fr = ["fn", "row_number", [], {"partition_by": [["col", gref]], "arrange": okeys}]
                polars_only = True
            elif fkind == "rank_explicit":
                fl = ["fn", "rank", [], {"arrange": okeys[:1]}]
                fr = ["fn", "rank", [], {"partition_by": [["col", gref]], "arrange": okeys[:1]}]
            else:
                fl = ["fn", fkind, [x], {}]
                fr = ["fn", fkind, [x], {"partition_by": [["col", gref]]}]
            L = [{"out": "L1", "verb": "group_by", "in": p, "cols": [gref]},
                 {"out": "L2", "verb": "arrange", "in": "L1", "keys": okeys},
                 {"out": "L3", "verb": "mutate", "in": "L2", "items": [["w", fl]]},
                 {"out": "L4", "verb": "ungroup", "in": "L3"}]
            R = [{"out": "R1", "verb": "mutate", "in": p, "items": [["w", fr]]},
                 {"out": "R2", "verb": "arrange", "in": "R1", "keys": okeys}]
    if eq == "drop_select":
        vis = list(t.visible)
        if len(vis) < 2:
            eq = "rename_inverse"
        else:
            k = draw(st.integers(1, len(vis) - 1))
            dropped = list(draw(st.permutations(vis)))[:k]
            vis_agg = [(n, c) for n, c in vis if c in t.agg_cols]
            if vis_agg and all(x in dropped for x in vis_agg):
                # K03 (open finding): one column of an ungrouped summarize stays selected
                dropped = [x for x in dropped if x != vis_agg[0]] or [x for x in vis if x != vis_agg[0]][:1]
            dn = {n for n, _ in dropped}
            L = [{"out": "L1", "verb": "drop", "in": p, "cols": [{"c": n} for n, _ in dropped]}]
            R = [{"out": "R1", "verb": "select", "in": p, "cols": [{"c": n} for n, _ in vis if n not in dn]}]
    if eq == "rename_inverse":
        names = t.names()
        k = draw(st.integers(1, min(2, len(names))))
        chosen = list(draw(st.permutations(names)))[:k]
        new = [n + "_zz" for n in chosen] if not (k == 2 and draw(st.booleans())) else [chosen[1], chosen[0]]
        L = [{"out": "L1", "verb": "rename", "in": p, "map": [[o, n] for o, n in zip(chosen, new)]},
             {"out": "L2", "verb": "rename", "in": "L1", "map": [[n, o] for o, n in zip(chosen, new)]}]
        R = [{"out": "R1", "verb": "select", "in": p, "cols": [{"c": n} for n in names]}]
    elif eq == "slice_chain":
        keys = []
        if sc.vis_refs:
            keys = [[["col", draw(st.sampled_from(sc.vis_refs))[0]], draw(st.booleans()), "last", 0]]
        keys += [[["col", r], False, None, 0] for r in sc.id_refs] or [[["col", {"c": n}], False, "last", 0] for n in t.names()]
        n1, o1 = draw(st.integers(0, t.n + 2)), draw(st.integers(0, 3))
        n2, o2 = draw(st.integers(0, t.n + 2)), draw(st.integers(0, 4))
        more = draw(st.booleans())
        n3, o3 = draw(st.integers(0, 4)), draw(st.integers(0, 2))
        L = [{"out": "L0", "verb": "arrange", "in": p, "keys": keys}, {"out": "L1", "verb": "slice_head", "in": "L0", "n": n1, "offset": o1},
             {"out": "L2", "verb": "slice_head", "in": "L1", "n": n2, "offset": o2}]
        n, o = min(n2, max(n1 - o2, 0)), o1 + o2
        if more:
            L.append({"out": "L3", "verb": "slice_head", "in": "L2", "n": n3, "offset": o3})
            n, o = min(n3, max(n - o3, 0)), o + o3
        R = [{"out": "R0", "verb": "arrange", "in": p, "keys": keys}, {"out": "R1", "verb": "slice_head", "in": "R0", "n": n, "offset": o}]
    elif eq == "join_cross_filter":
        rv = g.sub_pipeline(t.nodes)
        if rv is None or g.t(rv).group or t.n * g.t(rv).n > 2000:
            rv = g.source(name="rj")
        rt = g.t(rv)
        lsc, rsc = Scope(g.env, t, captures=True, c_refs=False), Scope(g.env, rt, captures=True, c_refs=False)
        fams = [f for f in ("int", "float", "str", "bool", "date", "datetime") if lsc.by_fam[f] and rsc.by_fam[f]]
        conds = []
        for _ in range(draw(st.integers(1, 2))):
            if not fams:
                break
            f = draw(st.sampled_from(fams))
            l = ["col", draw(st.sampled_from(lsc.by_fam[f]))[0]]
            r = ["col", draw(st.sampled_from(rsc.by_fam[f]))[0]]
            op = draw(st.sampled_from(["eq", "eq", "eq", "lt", "ge", "ne"])) if f != "bool" else "eq"
            conds.append(["fn", op, [l, r], {}])
        R = [{"out": "R1", "verb": "join", "in": p, "right": rv, "how": "inner", "cross": True, "on": [], "suffix": "_jj"}]
        if conds:
            on = conds[0]
            for c in conds[1:]:
                on = ["fn", "and", [on, c], {}]
            L = [{"out": "L1", "verb": "join", "in": p, "right": rv, "how": "inner", "on": [on], "suffix": "_jj", "on_single": True}]
            R.append({"out": "R2", "verb": "filter", "in": "R1", "preds": [on]})
        else:
            # no pair of columns of one family: `on` needs a column expression, so both sides are the plain cross join
            L = [dict(R[0], out="L1")]
    elif eq == "map_when":
        f2 = draw(st.sampled_from([f for f in ("int", "str") if sc.by_fam[f]] or ["int"]))
        x = expr(f2, 1)
        if not any(nd[0] == "col" for nd in walk_expr(x)):
            x = eg.leaf(f2)  # (a literal first argument of map / is_in is a scalar for Polars, DESIGN 4.15 a)
        fam = draw(st.sampled_from(["int", "str", "float"]))
        branches, used = [], set()
        for _ in range(draw(st.integers(1, 3))):
            keys = []
            for _ in range(draw(st.integers(1, 2))):
                kl = lit_of(draw, f2, cfg.expr, typed_ok=False)
                if repr(kl[1]) not in used:
                    used.add(repr(kl[1]))
                    keys.append(kl)
            if keys:
                branches.append([keys, lit_of(draw, fam, cfg.expr, typed_ok=False) if draw(st.booleans()) else expr(fam, 1)])
        if not branches:
            branches = [[[lit_of(draw, f2, cfg.expr, typed_ok=False)], lit_of(draw, fam, cfg.expr, typed_ok=False)]]
        dflt = lit_of(draw, fam, cfg.expr, typed_ok=False) if draw(st.booleans()) else ["lit", None]
        m = ["map", x, branches, dflt]
        w = ["case", [[["fn", "is_in", [x] + keys, {}], v] for keys, v in branches], dflt]
        L = [{"out": "L1", "verb": "mutate", "in": p, "items": [["w", m]]}]
        R = [{"out": "R1", "verb": "mutate", "in": p, "items": [["w", w]]}]
    elif eq == "is_in_or":
        f2 = draw(st.sampled_from([f for f in ("int", "str", "float", "date") if sc.by_fam[f]] or ["int"]))
        x = expr(f2, 1)
        if not any(nd[0] == "col" for nd in walk_expr(x)):
            x = eg.leaf(f2)  # (a literal first argument of map / is_in is a scalar for Polars, DESIGN 4.15 a)
        vals = [lit_of(draw, f2, cfg.expr, typed_ok=False) if draw(st.booleans()) else expr(f2, 0) for _ in range(draw(st.integers(1, 3)))]
        if draw(st.integers(0, 2)) == 0:
            # a null among the values: rows matching no other value are null (not false), as with `x == None`
            vals.insert(draw(st.integers(0, len(vals))), ["lit", None])
        a = ["fn", "is_in", [x] + vals, {}]
        b = ["fn", "eq", [x, vals[0]], {}]
        for v in vals[1:]:
            b = ["fn", "or", [b, ["fn", "eq", [x, v], {}]], {}]
        L = [{"out": "L1", "verb": "mutate", "in": p, "items": [["w", a]]}]
        R = [{"out": "R1", "verb": "mutate", "in": p, "items": [["w", b]]}]
    elif eq == "union_swap":
        target = [(n, t.fam[c]) for n, c in t.visible]
        rv = g.sub_pipeline(frozenset(), length=0)
        rv = g.shape_to(rv, target) if rv is not None and not any(f == "null" for _, f in target) else None
        if rv is None:
            L = [{"out": "L1", "verb": "select", "in": p, "cols": [{"c": n} for n in t.names()]}]
            R = copy.deepcopy(L)
            R[0]["out"] = "R1"
        else:
            d = draw(st.booleans())
            L = [{"out": "L1", "verb": "union", "in": p, "right": rv, "distinct": d}]
            R = [{"out": "R0", "verb": "union", "in": rv, "right": p, "distinct": d},
                 {"out": "R1", "verb": "select", "in": "R0", "cols": [{"c": n} for n in t.names()]}]
    case["eq"] = eq
    case["prefix_var"] = p
    case["left"], case["right"] = L, R
    case["polars_only"] = polars_only
    case["result"] = p
    case["_gen"] = {"skipped": g.skipped, "gen_rejects": g.gen_rejects, "classes": sorted(g.classes), "excluded": g.excluded}
    return case


class C15(Check):
    ID = "C15"
    RULE = ("One pair constructor per listed equivalence, each instantiated over a generated prefix pipeline, generated "
            "expressions (captured references) and data: several mutate / filter arguments vs one call each; group_by >> "
            "arrange >> mutate(f) >> ungroup vs mutate(f(partition_by=, arrange=)) (shift / row_number on Polars with a total "
            "order, aggregates and rank on both backends); drop vs select of the complement; rename then inverse; chains of "
            "2-3 slice_head vs the combined slice (incl. offsets beyond the kept rows); inner_join vs cross_join >> filter; "
            "map vs when/then over is_in; is_in vs OR of equalities; union with swapped operands up to column order. "
            "Oracle: both sides export the same table on each backend (names; rows as multisets, slices after a total "
            "order); a side refused by SQL is counted. non-trivial = both sides produced >=1 row")
    N = {"quick": 3000, "thorough": 100000}

    def strategy(self, tier):
        return c15_case(tier)

    def examine(self, case) -> Outcome:
        out = Outcome()
        out.classes.append("eq:" + case["eq"])
        full, refs = {}, {}
        for side in ("left", "right"):
            c = dict(case)
            c["steps"] = case["steps"] + case[side]
            full[side] = c
            try:
                refs[side] = refsem.run(c)
            except OutOfDomain as ex:
                out.discard = f"out-of-domain:{str(ex)[:40]}"
                return out
            except RefReject as ex:
                out.discard = f"ref-reject:{ex.kind}"
                return out
        kinds = ("polars",) if case.get("polars_only") else ("polars", "sqlite")
        rows_seen = False
        for kind in kinds:
            frames = {}
            refused = False
            for side in ("left", "right"):
                b = build.build(full[side], kind, auto_alias=True)
                try:
                    if b.error is not None:
                        k, ex = b.error
                        if is_refusal(ex):
                            out.count(f"refused:{kind}:{side}")
                            refused = True
                        else:
                            out.fail("internal-error", f"{kind}:{case['eq']}:{side}:{exc_name(ex)}", f"{kind}: {side} side raised {exc_name(ex)}: {str(ex)[:300]}")
                            refused = True
                        continue
                    last = full[side]["steps"][-1]["out"] if case[side] else case["prefix_var"]
                    last = b.steps[-1]["out"]
                    try:
                        frames[side] = build.export_polars(b.vars[last])
                    except BaseException as ex:  # noqa: BLE001
                        reraise_control(ex)
                        if is_refusal(ex) or engine_quirk(ex, full[side], refs.get(side)):
                            refused = True
                            continue
                        out.fail("internal-error", f"{kind}:{case['eq']}:export:{exc_name(ex)}", f"{kind}: export of the {side} side raised {exc_name(ex)}: {str(ex)[:300]}")
                        refused = True
                finally:
                    b.backend.close()
            if refused or len(frames) < 2:
                continue
            a, c = frames["left"], frames["right"]
            if case["eq"] == "union_swap" and sorted(a.columns) == sorted(c.columns):
                c = c.select(a.columns)
            try:
                oracle.compare_frames(a, c, order="multiset", tol=oracle.TOL_PL if kind == "polars" else oracle.TOL_SQL)
                out.count(f"equivalent:{kind}")
                if a.height > 0:
                    rows_seen = True
            except oracle.Mismatch as mm:
                from ..pipeline_oracle import sqlite_full_join_quirk

                if kind == "sqlite" and any(
                        full[sd]["steps"] and sqlite_full_join_quirk(full[sd], full[sd]["steps"][-1]["out"]) for sd in ("left", "right")):
                    out.count("engine_quirk:sqlite_full_join_in_compound_subquery")  # DESIGN 4.15 (h)
                    continue
                out.fail("not-equivalent", f"{kind}:{case['eq']}:{mm.kind}", f"{kind}: the two sides of `{case['eq']}` differ: {mm}")
        out.nontrivial = out.discard is None and rows_seen
        return out


CHECK = C15()
