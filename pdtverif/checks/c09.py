"""C09 — column references denote columns, not names (DESIGN §6 C09)."""
from __future__ import annotations

from hypothesis import strategies as st

from .. import build, oracle, pipegen, refsem
from ..exprgen import Cfg, Scope
from ..pipeline_oracle import classify_case, close_run, examine_pipeline, exc_name, reraise_control, sqlite_full_join_quirk
from ..runner import Outcome
from . import Check

WEIGHTS = {"rename": 14, "select": 10, "drop": 5, "mutate": 14, "arrange": 4, "filter": 5, "join": 9, "alias": 6,
           "summarize": 3, "group_by": 2, "ungroup": 1, "slice_head": 1, "union": 2, "collect": 0}


@st.composite
def c09_case(draw, tier):
    deep = tier == "thorough"
    pl_only = draw(st.integers(0, 9)) < 3
    w = dict(WEIGHTS)
    if pl_only:
        w["collect"] = 5
    cfg = pipegen.PCfg(weights=w, max_len=10 if deep else 7, min_len=2, agg_in_mutate=False, win_in_mutate=False,
                       max_tables=2, sub_len=2, expr=Cfg(max_depth=2), sql=not pl_only)
    g = pipegen.PipeGen(draw, cfg)
    var = g.source()
    var = g.extend(var, draw(st.integers(cfg.min_len, cfg.max_len)))
    case = g.case
    case["result"] = var
    case["pl_only"] = pl_only
    t = g.t(var)
    vis = {c: n for n, c in t.visible}
    # probes: references taken from every table of the history
    cands = []
    for v, src in g.env.vars.items():
        if "~" in v:
            continue
        for n, c in src.visible:
            cands.append(({"v": v, "n": n}, c))
    if cands:
        # references to columns that are hidden but still in scope (the ones a join / subquery can mix up) and to
        # columns that went out of scope come first, the rest is random
        perm = list(draw(st.permutations(cands)))
        hidden = [x for x in perm if x[1] in t.scope and x[1] not in vis]
        gone = [x for x in perm if x[1] not in t.scope]
        first = hidden[:3] + gone[:2]
        cands = (first + [x for x in perm if x not in first])[: (10 if deep else 7)]
    probes = []
    for ref, cid in cands:
        probes.append({"ref": ref, "in_scope": cid in t.scope, "visible": cid in vis, "name": vis.get(cid),
                       "renamed": cid in vis and vis[cid] != ref["n"],
                       "name_reused": ref["n"] in t.vis() and t.vis()[ref["n"]] != cid})
    case["probes"] = probes
    case["c_probes"] = list(draw(st.permutations(t.names())))[:3]
    case["_gen"] = {"skipped": g.skipped, "gen_rejects": g.gen_rejects, "classes": sorted(g.classes), "excluded": g.excluded}
    return case


class C09(Check):
    ID = "C09"
    RULE = ("Hypothesis composite strategy producing verb histories (rename incl. swaps and re-use of hidden names, select/"
            "drop, overwriting mutate, arrange, filter, join with suffixing, alias(keep_col_refs=True/False), collect on "
            "Polars, summarize, union) over one or two source tables; then up to 7-10 references `t.x` taken from arbitrary "
            "tables of the history are probed on the final table: mutate(p=ref), derived[ref].name, `ref in derived`, and "
            "C.name for current names. Oracle: the reference scoping model (column ids): in scope -> the probe column "
            "equals that column's data row by row and .name is its current name; not in scope -> ColumnNotFoundError; "
            "Polars and SQLite. non-trivial = a probed reference whose column was renamed since capture or whose old name "
            "now belongs to another column, or an out-of-scope reference")
    N = {"quick": 2500, "thorough": 60000}

    def strategy(self, tier):
        return c09_case(tier)

    def examine(self, case) -> Outcome:
        out = Outcome()
        classify_case(case, out)
        backends = ("polars",) if case.get("pl_only") else ("polars", "sqlite")
        run = examine_pipeline(case, out, backends=backends, close=False)
        try:
            self._probes(case, out, run)
        finally:
            close_run(run)
        return out

    def _probes(self, case, out, run):
        if out.discard is not None or run.ref is None:
            return
        import pydiverse.transform as pdt

        rv = case["result"]
        t = run.ref.vars[rv]
        probes = case.get("probes", [])
        pos = [p for p in probes if p["in_scope"]]
        neg = [p for p in probes if not p["in_scope"]]
        # expected data for the positive probes via the reference
        items = [[f"zpr{k}", ["col", p["ref"]]] for k, p in enumerate(pos)] + [
            [f"zcp{k}", ["col", {"c": n}]] for k, n in enumerate(case.get("c_probes", []))]
        exp = None
        if items:
            # the probe columns are added to the table (no select: deselecting columns would change
            # what is being tested); all columns are compared
            step = {"out": rv + "_probe", "verb": "mutate", "in": rv, "items": items}
            sel = step
            try:
                exp = refsem.apply_step(run.ref, step)
            except (refsem.RefReject, refsem.OutOfDomain) as ex:
                out.discard = f"probe-ref:{type(ex).__name__}"
                return
        for kind, b in run.built.items():
            if b.error is not None or rv not in b.vars:
                continue
            if kind == "sqlite" and run.ref.pl_only:
                continue
            tbl = b.vars[rv]
            view = "polars" if kind == "polars" else "sql"
            if items:
                try:
                    b.builder.step(step)
                    df = build.export_polars(b.vars[sel["out"]])
                    oracle.compare_ref(exp, df, view=view)
                    out.count(f"probes_compared:{kind}", len(items))
                except oracle.Mismatch as mm:
                    from ..pipeline_oracle import _noopt_agrees

                    if kind == "polars" and _noopt_agrees(b.vars[sel["out"]], lambda d: oracle.compare_ref(exp, d, view=view)):
                        out.count("engine_quirk:polars_optimizer")
                    elif kind == "polars" and run.prefix_quirk:
                        out.count("engine_quirk:prefix:" + run.prefix_quirk)  # the table itself is a victim of an engine bug
                    elif kind == "sqlite" and sqlite_full_join_quirk(run.case2, rv):
                        out.count("engine_quirk:sqlite_full_join_in_compound_subquery")  # DESIGN 4.15 (h)
                    else:
                        out.fail("mismatch", f"{kind}:probe:{mm.kind}", f"{kind}: probe columns differ from the referenced data: {mm}")
                except BaseException as ex:  # noqa: BLE001
                    reraise_control(ex)
                    from ..pipeline_oracle import engine_quirk

                    if kind == "sqlite" and exc_name(ex) in ("SubqueryError", "NotSupportedError"):
                        out.count("probe_sql_refused")
                    elif engine_quirk(ex, run.case2, run.ref):
                        out.count("engine_quirk:" + engine_quirk(ex, run.case2, run.ref))
                    else:
                        out.fail("wrong-exception", f"{kind}:probe:{exc_name(ex)}",
                                 f"{kind}: an in-scope reference was rejected with {exc_name(ex)}: {str(ex)[:300]}")
            for p in pos:
                try:
                    col = b.builder.colref(p["ref"])
                except BaseException as ex:  # noqa: BLE001
                    reraise_control(ex)
                    # the variable's own table does not know the name the reference model gives the column there
                    out.fail("name", f"{kind}:lookup:{exc_name(ex)}",
                             f"{kind}: {p['ref']} cannot be looked up on its own table: {exc_name(ex)}: {str(ex)[:200]}")
                    continue
                # derived[ref].name and `ref in derived`
                try:
                    inn = col in tbl
                    if inn != p["visible"]:
                        out.fail("contains", f"{kind}:contains", f"{kind}: `ref in table` is {inn}, expected {p['visible']} for {p['ref']}")
                    if p["visible"]:
                        nm = tbl[col].name
                        if nm != p["name"]:
                            out.fail("name", f"{kind}:name", f"{kind}: table[ref].name = {nm!r}, expected {p['name']!r} for {p['ref']}")
                    else:
                        try:
                            tbl[col]
                            out.fail("name", f"{kind}:hidden-getitem", f"{kind}: table[ref] accepted a hidden column {p['ref']}")
                        except BaseException as ex:  # noqa: BLE001
                            reraise_control(ex)
                            if exc_name(ex) != "ColumnNotFoundError":
                                out.fail("wrong-exception", f"{kind}:hidden-getitem:{exc_name(ex)}", f"{kind}: table[hidden ref] raised {exc_name(ex)}")
                except BaseException as ex:  # noqa: BLE001
                    reraise_control(ex)
                    out.fail("internal-error", f"{kind}:metadata:{exc_name(ex)}", f"{kind}: {exc_name(ex)}: {ex}")
            for p in neg:
                st_ = {"out": rv + "_neg", "verb": "mutate", "in": rv, "items": [["prn", ["col", p["ref"]]]]}
                try:
                    b.builder.step(st_)
                    out.fail("accepted", f"{kind}:out-of-scope-reference-accepted",
                             f"{kind}: reference {p['ref']} is not derivable any more but mutate accepted it")
                except BaseException as ex:  # noqa: BLE001
                    reraise_control(ex)
                    if exc_name(ex) != "ColumnNotFoundError":
                        out.fail("wrong-exception", f"{kind}:out-of-scope:{exc_name(ex)}",
                                 f"{kind}: out-of-scope reference {p['ref']} raised {exc_name(ex)} instead of ColumnNotFoundError: {str(ex)[:200]}")
                    else:
                        out.count("out_of_scope_rejected")
                try:
                    col = b.builder.colref(p["ref"])
                    if col in tbl:
                        out.fail("contains", f"{kind}:contains-out-of-scope", f"{kind}: out-of-scope {p['ref']} reported as contained")
                except BaseException as ex:  # noqa: BLE001
                    reraise_control(ex)
        out.nontrivial = any(p["renamed"] or p["name_reused"] for p in pos) or bool(neg)
        if any(p["renamed"] for p in pos):
            out.classes.append("probe:renamed")
        if any(p["name_reused"] for p in pos):
            out.classes.append("probe:name_reused")
        if neg:
            out.classes.append("probe:out_of_scope")
        if any(not p["visible"] for p in pos):
            out.classes.append("probe:hidden")


CHECK = C09()
