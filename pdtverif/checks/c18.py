"""C18 — Python literals and patterns reach SQL as data (DESIGN §6 C18)."""
from __future__ import annotations

import copy
import re

from hypothesis import strategies as st

from .. import build, data
from ..ir import enc
from ..pipeline_oracle import classify_case, examine_pipeline, exc_name, is_refusal, reraise_control
from ..runner import Outcome
from . import Check

META = set("'\"\\%_/-;.$()[]|*+?^{}\n\t") | set("éßü日")
POSITIONS = ["eq", "ne", "lt", "is_in", "concat_r", "concat_l", "starts_with", "ends_with", "contains", "replace_sub",
             "replace_repl", "case_value", "case_cmp", "map_key", "map_value", "const_mutate", "fill_null", "coalesce",
             "neg_num", "sub_num", "clip_str", "filter_eq", "hmax", "neg_const_col"]


def lit_strategy():
    plain = st.lists(st.sampled_from(data.ALPHA), min_size=0, max_size=8).map("".join)
    tricky = st.sampled_from(["'", "''", "\\", "%", "_", "a%", "%a", "a_b", "--", "-- x", "/*", "*/", ";", "'; DROP TABLE t0; --",
                              "\\'", "\n", "a\nb", "\t", "é", "日本", "$1", "\\1", "(", ")", "[a]", "a|b", ".*", "^a$", "{1}", "?",
                              "%%", "__", "/", "//", "\\\\", "' OR '1'='1", "\"", "a'b\"c"])
    return st.one_of(plain, tricky, st.builds(lambda a, b: a + b, tricky, plain))


def template(pos, L, col="s", num="n"):
    """Expression with literal L (IR) at position pos. String positions use column `s`, numeric ones `n`."""
    c, n = ["col", {"c": col}], ["col", {"c": num}]
    f = lambda op, *a: ["fn", op, list(a), {}]  # noqa: E731
    return {
        "eq": f("eq", c, L), "ne": f("ne", c, L), "lt": f("lt", c, L), "is_in": f("is_in", c, L, ["lit", "x"]),
        "concat_r": f("add", c, L), "concat_l": f("add", L, c),
        "starts_with": f("str.starts_with", c, L), "ends_with": f("str.ends_with", c, L), "contains": f("str.contains", c, L),
        "replace_sub": f("str.replace_all", c, L, ["lit", "#"]), "replace_repl": f("str.replace_all", c, ["lit", "a"], L),
        "case_value": ["case", [[f("is_not_null", c), L]], ["lit", "x"]],
        "case_cmp": ["case", [[f("eq", c, L), ["lit", "hit"]]], ["lit", "miss"]],
        "map_key": ["map", c, [[[L], ["lit", "hit"]]], ["lit", "miss"]],
        "map_value": ["map", c, [[[["lit", "a"]], L]], ["lit", "miss"]],
        "const_mutate": L, "fill_null": f("fill_null", c, L), "coalesce": f("coalesce", c, L),
        "clip_str": f("clip", c, ["lit", ""], L), "filter_eq": f("eq", c, L), "hmax": f("hmax", c, L),
        "neg_num": f("add", f("neg", L), n), "sub_num": f("sub", n, L),
        # the literal becomes a constant column first and is negated through the column reference
        "neg_const_col": f("add", f("neg", ["col", {"c": "zk"}]), n),
    }[pos]


NUM_POS = {"neg_num", "sub_num", "neg_const_col"}
NULL_POS = {"eq", "ne", "is_in", "case_cmp", "case_value", "fill_null", "coalesce", "map_value", "filter_eq"}


@st.composite
def c18_case(draw, tier):
    pos = draw(st.sampled_from(POSITIONS))
    if pos in NUM_POS:
        v = draw(st.one_of(st.integers(-1000, -1), st.sampled_from([-1, -65, -0.5, -2.25, 0, 7]), st.floats(-100, -0.25).map(lambda x: round(x * 4) / 4)))
        benign = 1 if isinstance(v, int) else 1.5
    else:
        v = draw(lit_strategy())
        if pos == "replace_sub" and v == "":
            v = "'"
        if pos == "clip_str":
            pass
        benign = "x"
    null_lit = pos in NULL_POS and draw(st.integers(0, 11)) == 0
    if null_lit:
        v = None  # the Python value None is data, too: it reaches SQL as NULL with three-valued comparison semantics
    n = draw(st.integers(1, 8))
    svals = draw(st.lists(st.one_of(st.none(), lit_strategy(), st.just(v) if isinstance(v, str) else st.just("a"),
                                    st.builds(lambda a: a + (v if isinstance(v, str) else ""), lit_strategy())), min_size=n, max_size=n))
    nvals = draw(st.lists(st.one_of(st.none(), st.integers(-50, 50)), min_size=n, max_size=n))
    if not isinstance(v, int):
        ncol_dtype = "float64"
        nvals = [None if x is None else float(x) for x in nvals]
    else:
        ncol_dtype = "int64"
    tb = {"name": "t0", "cols": [["id", "int64"], ["s", "str"], ["n", ncol_dtype]],
          "rows": [[i + 1, enc(svals[i]), nvals[i]] for i in range(n)]}

    def mk(val):
        L = ["lit", enc(val)]
        e = template(pos, L)
        steps = [{"out": "v0", "verb": "source", "table": "t0"}]
        if pos == "neg_const_col":
            steps.append({"out": "vk", "verb": "mutate", "in": "v0", "items": [["zk", L]]})
            steps.append({"out": "v1", "verb": "mutate", "in": "vk", "items": [["r", e]]})
        elif pos == "filter_eq":
            steps.append({"out": "v1", "verb": "filter", "in": "v0", "preds": [e]})
        else:
            steps.append({"out": "v1", "verb": "mutate", "in": "v0", "items": [["r", e]]})
        return steps

    case = {"tables": [tb], "steps": mk(v), "benign_steps": mk(benign), "result": "v1", "pos": pos, "literal": enc(v)}
    if null_lit:
        del case["benign_steps"]  # NULL is a keyword, not a literal token: no skeleton comparison
    return case


_STR = re.compile(r"N?'(?:[^']|'')*'")
_NUM = re.compile(r"(?<![\w.])-?\d+(?:\.\d+)?(?:[eE][+-]?\d+)?(?![\w.])")


def skeleton(sql: str):
    s = _STR.sub("?", sql)
    s = _NUM.sub("?", s)
    s = re.sub(r"\s+", " ", s)
    return s


class C18(Check):
    ID = "C18"
    RULE = ("Hypothesis strategy: a literal (string over an alphabet with every SQL / LIKE / regex metacharacter, quotes, "
            "backslashes, comment and statement syntax, newlines, non-ASCII text, biased towards known tricky strings; or a "
            "negative number; in 1 of 12 cases of the comparison / fill positions the value None) placed in one of 24 operator positions (==, !=, <, is_in, + both sides, starts_with, ends_with, "
            "literal contains, replace_all both arguments, case value / comparison, map key / value, constant mutate, "
            "fill_null, coalesce, clip bound, filter predicate, horizontal max, unary minus - also of a constant column made from the literal -, subtraction) over column data "
            "drawn from the same alphabet (incl. the literal itself and strings containing it). Oracle: (1) SQLite export "
            "equals the Polars export and the reference; (2) skeleton invariance of build_query() on SQLite, PostgreSQL "
            "and MSSQL: after removing string literals and numbers the statement equals the one built with a benign "
            "literal, and contains no comment or statement-separator token. non-trivial = the literal contains a "
            "metacharacter or is negative")
    N = {"quick": 3000, "thorough": 100000}

    def strategy(self, tier):
        return c18_case(tier)

    def examine(self, case) -> Outcome:
        import pydiverse.transform as pdt

        out = Outcome()
        classify_case(case, out)
        out.classes.append("pos:" + str(case.get("pos")))
        examine_pipeline(case, out, differential=True)
        if "benign_steps" in case:
            benign = dict(case, steps=case["benign_steps"])
            for dialect in ("sqlite", "postgresql", "mssql"):
                try:
                    q = {}
                    for label, c in (("lit", case), ("benign", benign)):
                        b = build.build(c, dialect if dialect != "sqlite" else "sqlite")
                        try:
                            if b.error is not None:
                                raise b.error[1]
                            q[label] = b.vars[c["result"]] >> pdt.build_query()
                        finally:
                            b.backend.close()
                except BaseException as ex:  # noqa: BLE001
                    reraise_control(ex)
                    if is_refusal(ex):
                        out.count(f"refused:{dialect}")
                        continue
                    out.fail("internal-error", f"{dialect}:build_query:{exc_name(ex)}", f"{dialect}: build_query raised {exc_name(ex)}: {str(ex)[:200]}")
                    continue
                sk1, sk2 = skeleton(q["lit"]), skeleton(q["benign"])
                out.count(f"skeleton_compared:{dialect}")
                if sk1 != sk2:
                    out.fail("structure", f"{dialect}:skeleton:{case.get('pos')}",
                             f"{dialect}: statement structure depends on the literal {case.get('literal')!r}:\\n{q['lit']}\\nvs\\n{q['benign']}")
                elif re.search(r"--|/\*|;", sk1):
                    out.fail("structure", f"{dialect}:comment-token:{case.get('pos')}", f"{dialect}: comment / separator token outside literals: {q['lit']}")
        v = case.get("literal")
        out.nontrivial = out.discard is None and ((isinstance(v, str) and bool(set(v) & META)) or (isinstance(v, (int, float)) and v < 0))
        return out


CHECK = C18()
