"""C01 — Polars and SQLite return the same table for the same pipeline (DESIGN §6 C01)."""
from __future__ import annotations

from .. import pipegen
from ..exprgen import Cfg
from ..pipeline_oracle import classify_case, examine_pipeline, n_data_verbs
from ..runner import Outcome
from . import Check


class C01(Check):
    ID = "C01"
    RULE = ("Hypothesis composite strategy over the full verb set (select/drop/rename/mutate/filter/arrange/slice_head/"
            "group_by/ungroup/summarize/join/union/alias; element-wise, aggregate, window, case, cast expressions; 1-3 "
            "tables incl. empty, single-row and tall ones). Each case is built on Polars and on SQLite (alias() inserted "
            "where SQL raises SubqueryError) and the two exported frames are compared: names exactly, rows as "
            "sequence-modulo-ties under the arrange keys that bind the SQL order, else as multisets; the reference "
            "interpreter only decides domain membership and the order descriptor. non-trivial = both backends produced "
            "a frame, >=2 data-affecting verbs, non-empty input; distinct = canonical IR hash")
    N = {"quick": 4000, "thorough": 150000}

    def cfg(self, tier):
        deep = tier == "thorough"
        return pipegen.PCfg(max_len=12 if deep else 7, min_len=2, allow_tall=True,
                            expr=Cfg(max_depth=4 if deep else 3))

    def strategy(self, tier):
        return pipegen.pipeline_case(self.cfg(tier))

    def examine(self, case) -> Outcome:
        out = Outcome()
        classify_case(case, out)
        run = examine_pipeline(case, out, ref_compare=False, differential=True)
        rv = case["result"]
        both = ("polars", rv) in run.frames and ("sqlite", rv) in run.frames
        nonempty = any(len(t["rows"]) > 0 for t in case["tables"])
        out.nontrivial = out.discard is None and both and n_data_verbs(case) >= 2 and nonempty
        return out


CHECK = C01()
