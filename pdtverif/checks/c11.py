"""C11 — table metadata agrees with the exported frame (DESIGN §6 C11)."""
from __future__ import annotations

import re

from .. import build, pipegen
from ..exprgen import Cfg
from ..pipeline_oracle import classify_case, close_run, engine_quirk, examine_pipeline, exc_name, is_refusal, reraise_control
from ..runner import Outcome
from . import Check

WEIGHTS = {"select": 12, "mutate": 12, "rename": 8, "summarize": 6, "join": 7, "union": 4, "alias": 4, "drop": 4,
           "filter": 3, "arrange": 2, "group_by": 4, "ungroup": 1, "slice_head": 1, "collect": 0}


def _count_noopt(tbl):
    import polars as pl

    import pydiverse.transform as pdt

    try:
        lf = tbl >> pdt.ungroup() >> pdt.summarize(num_rows=pdt.count()) >> pdt.export(pdt.Polars(lazy=True))
        return lf.collect(optimizations=pl.QueryOptFlags.none()).item()
    except BaseException as ex:  # noqa: BLE001
        reraise_control(ex)
        return None


class C11(Check):
    ID = "C11"
    RULE = ("Hypothesis composite strategy: verb histories weighted towards reordering select, overwriting mutate/summarize, "
            "rename, joins with suffixing, unions, alias (collect on Polars). After every step of the history, on Polars and "
            "SQLite: columns(), [c.name for c in tbl], len(tbl), `name in tbl` for a name pool, dir(tbl) and - on Polars - the "
            "shape line and header of repr(tbl) must equal export(Polars()).columns in names, order and count; and "
            "Cache.from_ast(tbl._ast) must equal the incrementally kept tbl._cache on the visible name list. "
            "non-trivial = history contains a reordering select, an overwriting mutate/summarize or a join with suffixing")
    N = {"quick": 2500, "thorough": 60000}

    def cfg(self, tier):
        deep = tier == "thorough"
        return pipegen.PCfg(weights=WEIGHTS, max_len=9 if deep else 6, min_len=2, max_tables=2, sub_len=2,
                            expr=Cfg(max_depth=2))

    def strategy(self, tier):
        return pipegen.pipeline_case(self.cfg(tier))

    def examine(self, case) -> Outcome:
        out = Outcome()
        classify_case(case, out)
        run = examine_pipeline(case, out, ref_compare=False, close=False)
        try:
            if out.discard is None:
                self._meta(case, out, run)
        finally:
            close_run(run)
        cls = set(case.get("_gen", {}).get("classes", []))
        out.nontrivial = out.discard is None and bool(cls & {"select_reorder", "overwrite", "join_collision", "summarize_overwrites_key"})
        return out

    def _meta(self, case, out, run):
        import pydiverse.transform as pdt
        from pydiverse.transform._internal.pipe.cache import Cache

        pool = ["a", "b", "c", "d", "x", "y", "k", "id", "p", "q", "a_r", "a_t1", "zz"]
        for kind, b in run.built.items():
            if b.error is not None:
                continue
            for s in run.case2["steps"]:
                v = s["out"]
                if v not in b.vars:
                    continue
                tbl = b.vars[v]
                try:
                    df = build.export_polars(tbl)
                except BaseException as ex:  # noqa: BLE001
                    reraise_control(ex)
                    if (kind == "sqlite" and is_refusal(ex)) or engine_quirk(ex, run.case2, run.ref):
                        continue
                    df = None
                    if kind == "polars":
                        # the Polars optimizer panics / raises on a plan that collects without it (DESIGN 4.15 g)
                        try:
                            df = build.export_polars_noopt(tbl)
                            out.count("engine_quirk:polars_optimizer_error")
                        except BaseException as ex2:  # noqa: BLE001
                            reraise_control(ex2)
                            df = None
                    if df is None:
                        out.fail("internal-error", f"{kind}:export:{exc_name(ex)}", f"{kind} export at {v} raised {exc_name(ex)}: {str(ex)[:200]}")
                        continue
                cols = list(df.columns)
                out.count("tables_checked")
                probes = {
                    "columns()": tbl >> pdt.columns(),
                    "iteration": [c.name for c in tbl],
                    "dir": list(dir(tbl)),
                }
                for what, got in probes.items():
                    # the builtin dir() sorts what __dir__ returns: names and count only
                    if (sorted(got) != sorted(cols)) if what == "dir" else (list(got) != cols):
                        out.fail("metadata", f"{kind}:{what}:{s['verb']}", f"{kind}: {what} = {list(got)} but export has {cols} (after {s['verb']})")
                if len(tbl) != len(cols):
                    out.fail("metadata", f"{kind}:len:{s['verb']}", f"{kind}: len(tbl) = {len(tbl)} but export has {len(cols)} columns")
                for n in pool:
                    if (n in tbl) != (n in cols):
                        out.fail("metadata", f"{kind}:in:{s['verb']}", f"{kind}: `{n!r} in tbl` = {n in tbl} but export has {cols}")
                        break
                try:
                    fresh = Cache.from_ast(tbl._ast)
                    if list(fresh.name_to_uuid.keys()) != list(tbl._cache.name_to_uuid.keys()):
                        out.fail("metadata", f"{kind}:from_ast:{s['verb']}",
                                 f"{kind}: recomputed metadata {list(fresh.name_to_uuid)} vs incremental {list(tbl._cache.name_to_uuid)}")
                    if set(fresh.cols) != set(tbl._cache.cols):
                        out.fail("metadata", f"{kind}:from_ast_scope:{s['verb']}",
                                 f"{kind}: recomputed scope differs from incremental scope after {s['verb']}")
                except BaseException as ex:  # noqa: BLE001
                    reraise_control(ex)
                    out.fail("internal-error", f"{kind}:from_ast:{exc_name(ex)}", f"Cache.from_ast raised {exc_name(ex)}: {ex}")
                if kind == "polars" and s is run.case2["steps"][-1]:
                    try:
                        r = repr(tbl)
                        m = re.search(r"shape: \((\d+), (\d+)\)", r)
                        if "export failed" in r and not m:
                            # repr runs its own (preview) export; an engine bug in there is reported inside the text
                            em = re.search(r"export failed\s+(\w+): (.*)", r, re.S)
                            fake = type(em.group(1), (Exception,), {})(em.group(2)) if em else None
                            if fake is not None and engine_quirk(fake, run.case2, run.ref):
                                out.count("engine_quirk:in_repr")
                                continue
                        if m and int(m.group(2)) == len(cols) and int(m.group(1)) != df.height and (
                                build.export_polars_noopt(tbl).height == int(m.group(1))):
                            out.count("engine_quirk:polars_optimizer")  # the optimised plan returns extra rows
                        elif m and int(m.group(2)) == len(cols) and int(m.group(1)) != df.height and _count_noopt(tbl) == df.height:
                            # repr counts the rows with `summarize(count())`; the optimised plan of that query is wrong
                            # (projection pushdown through a select of aggregates), the unoptimised one agrees (4.15 b)
                            out.count("engine_quirk:polars_optimizer")
                        elif not m or int(m.group(2)) != len(cols) or int(m.group(1)) != df.height:
                            out.fail("metadata", "polars:repr-shape", f"repr shape {m.group(0) if m else None} vs frame ({df.height}, {len(cols)})")
                    except BaseException as ex:  # noqa: BLE001
                        reraise_control(ex)
                        if exc_name(ex) == "PanicException":
                            out.count("engine_quirk:polars_optimizer_panic")  # inside repr's own export (DESIGN 4.15 g)
                            continue
                        out.fail("internal-error", f"polars:repr:{exc_name(ex)}", f"repr raised {exc_name(ex)}: {ex}")


CHECK = C11()
