"""C16 — alias / collect / transfer_col_references re-root a table without changing data (DESIGN §6 C16)."""
from __future__ import annotations

from hypothesis import strategies as st

from .. import build, oracle, pipegen
from ..exprgen import Cfg
from ..pipeline_oracle import classify_case, close_run, engine_quirk, examine_pipeline, exc_name, is_refusal, reraise_control
from ..runner import Outcome
from .c09 import C09

WEIGHTS = {"rename": 10, "select": 8, "drop": 4, "mutate": 12, "filter": 5, "arrange": 3, "group_by": 6, "ungroup": 1,
           "alias": 2, "summarize": 2, "join": 2, "slice_head": 1, "union": 1, "collect": 0}
KINDS = ["alias", "alias", "alias_keep", "collect", "collect_nokeep", "transfer", "alias_twice"]


@st.composite
def c16_case(draw, tier):
    deep = tier == "thorough"
    kind = draw(st.sampled_from(KINDS))
    pl_only = kind in ("collect", "collect_nokeep", "transfer")
    cfg = pipegen.PCfg(weights=WEIGHTS, max_len=7 if deep else 5, min_len=1, agg_in_mutate=False, win_in_mutate=False,
                       max_tables=2, sub_len=1, expr=Cfg(max_depth=2), sql=not pl_only)
    g = pipegen.PipeGen(draw, cfg)
    var = g.source()
    var = g.extend(var, draw(st.integers(cfg.min_len, cfg.max_len)))
    if kind in ("alias", "alias_twice") and draw(st.integers(0, 3)) == 0:
        # the aliased table is a summary of its ancestors: a later self-join with an ancestor has columns on the left
        # that the aliased side has dropped
        try:
            sv = g.v_summarize(var)
        except (pipegen.OutOfDomain, pipegen.GenSkip):
            sv = None
        if sv is not None:
            var = sv
            if g.t(var).group:
                var = g.emit({"out": g.new_var(), "verb": "ungroup", "in": var}) or var
            g.classes.add("summarize_before_alias")
    t0 = g.t(var)
    if t0.group and len(t0.visible) >= 2 and draw(st.integers(0, 2)) == 0:
        # a deselected grouping column keeps grouping the table, also across the re-rooting
        gn = [n for n, c in t0.visible if c in t0.group and c not in t0.agg_cols]  # (K03: aggregate columns stay selected)
        if gn:
            v2 = g.emit({"out": g.new_var(), "verb": "drop", "in": var, "cols": [{"c": draw(st.sampled_from(gn))}]})
            if v2 is not None:
                var = v2
                g.classes.add("hidden_group_col")
    origin = var
    t0 = g.t(origin)
    case = g.case
    case["kind"] = kind
    case["pl_only"] = pl_only
    case["origin"] = origin
    grouped = bool(t0.group)
    if kind in ("alias", "alias_twice"):
        r = g.emit({"out": g.new_var(), "verb": "alias", "in": origin, "keep": False,
                    **({"name": draw(st.sampled_from(["r", "t1"]))} if draw(st.booleans()) else {})})
        if kind == "alias_twice":
            r = g.emit({"out": g.new_var(), "verb": "alias", "in": r, "keep": draw(st.booleans())})
    elif kind == "alias_keep":
        r = g.emit({"out": g.new_var(), "verb": "alias", "in": origin, "keep": True})
    elif kind == "collect":
        r = g.emit({"out": g.new_var(), "verb": "collect", "in": origin, "keep": True})
    elif kind == "collect_nokeep":
        r = g.emit({"out": g.new_var(), "verb": "collect", "in": origin, "keep": False})
    else:
        m = g.emit({"out": g.new_var(), "verb": "rematerialize", "in": origin})
        if m is not None and draw(st.booleans()):
            # hidden columns in the table whose data is taken
            m2 = g.v_select(m) if draw(st.booleans()) else g.v_mutate(m, agg=False, win=False)
            to, tm = g.t(origin), (g.t(m2) if m2 is not None else None)
            # names exist in the reference source and denote columns of the same type there (the table is a
            # materialised copy of the reference source: DESIGN 4.14)
            if m2 is not None and all(n in to.vis() and to.fam[to.vis()[n]] == tm.fam[tm.vis()[n]] for n in tm.names()):
                m = m2
        r = g.emit({"out": g.new_var(), "verb": "transfer", "in": m, "ref": origin}) if m is not None else None
        case["origin_cmp"] = m  # the data of a transfer comes from its first argument
    if r is None:
        case["result"] = origin
        case["rerooted"] = None
        case["probes"], case["c_probes"] = [], []
        case["_gen"] = {"classes": sorted(g.classes)}
        return case
    case["rerooted"] = r
    final = r
    tr = g.t(r)
    # follow-up use
    follow = draw(st.sampled_from(["none", "verbs", "selfjoin", "summarize", "groupwin"]))
    if "summarize_before_alias" in g.classes and draw(st.integers(0, 3)) > 0:
        follow = "selfjoin"
    if "hidden_group_col" in g.classes and tr.group and draw(st.integers(0, 3)) > 0:
        follow = "groupwin"
    if follow == "groupwin" and not tr.group:
        follow = "verbs"
    if follow == "groupwin":
        # an aggregate as window function sees the grouping that was in place before the re-rooting
        items = [["n_g", ["fn", "count_star", [], {}]]]
        ints = [n for n, c in tr.visible if tr.fam[c] == "int"]
        if ints:
            items.append(["s_g", ["fn", "sum", [["col", {"c": draw(st.sampled_from(ints))}]], {}]])
        gv = g.emit({"out": g.new_var(), "verb": "mutate", "in": r, "items": items})
        if gv is not None:
            final = gv
            g.classes.add("window_after_reroot")
    elif follow == "verbs":
        final = g.extend(r, draw(st.integers(1, 2)))
    elif follow == "selfjoin" and kind in ("alias", "alias_twice") and not tr.group:
        # the left operand is the origin or one of its ancestors (e.g. the table before a summarize whose result was
        # aliased): columns that the aliased side has dropped must keep denoting the left operand's data
        from ..findings import chain

        anc = [s_["out"] for s_ in chain({"steps": case["steps"]}, origin)
               if s_["out"] in g.env.vars and not g.t(s_["out"]).group and "~" not in s_["out"]]
        lv, rvv = (draw(st.sampled_from(anc)) if anc else origin), r
        tl = g.t(lv)
        names = [n for n in tl.names() if n in tr.vis() and tl.fam[tl.vis()[n]] == tr.fam[tr.vis()[n]]]
        if lv != origin:
            g.classes.add("selfjoin_ancestor")
        if names and tl.n * tr.n <= 4000 and not tl.group:
            n = draw(st.sampled_from(names))
            on = [["fn", "eq", [["col", {"v": lv, "n": n}], ["col", {"v": rvv, "n": n}]], {}]]
            from ..findings import side_has_computed

            how = draw(st.sampled_from(["inner", "left"]))
            if how == "left" and side_has_computed({"steps": case["steps"]}, rvv):
                how = "inner"  # K01 (open finding) excluded by construction
                g.excluded["K01"] = g.excluded.get("K01", 0) + 1
            j = g.emit({"out": g.new_var(), "verb": "join", "in": lv, "right": rvv, "how": how,
                        "on": on, "suffix": "_al"})
            if j is not None:
                final = j
                g.classes.add("selfjoin")
    elif follow == "summarize" and tr.group:
        sv = g.v_summarize(r)
        if sv is not None:
            final = sv
            g.classes.add("summarize_after_reroot")
    case["result"] = final
    t = g.t(final)
    vis = {c: n for n, c in t.visible}
    cands = []
    for v, src in g.env.vars.items():
        if "~" in v:
            continue
        for n, c in src.visible:
            cands.append(({"v": v, "n": n}, c))
    cands = list(draw(st.permutations(cands)))[:8] if cands else []
    case["probes"] = [{"ref": ref, "in_scope": cid in t.scope, "visible": cid in vis, "name": vis.get(cid),
                       "renamed": cid in vis and vis[cid] != ref["n"],
                       "name_reused": ref["n"] in t.vis() and t.vis()[ref["n"]] != cid} for ref, cid in cands]
    case["c_probes"] = list(draw(st.permutations(t.names())))[:2]
    case["prefix_hidden_or_renamed"] = bool(t0.hidden()) or any(s["verb"] == "rename" for s in case["steps"])
    case["_gen"] = {"skipped": g.skipped, "gen_rejects": g.gen_rejects, "classes": sorted(g.classes | {"kind:" + kind, "follow:" + follow}),
                    "excluded": g.excluded}
    return case


class C16(C09):
    ID = "C16"
    RULE = ("Hypothesis composite strategy: generated prefix pipeline (hidden columns, renames, grouping, joins), then one of "
            "alias(), alias(keep_col_refs=True), collect(), collect(keep_col_refs=False), transfer_col_references(Table("
            "exported frame), origin), alias twice; afterwards further verbs, a self-join of origin and alias, or a "
            "summarize / aggregate-as-window mutate of a table that was grouped (possibly by a deselected column) before the "
            "re-rooting; then references from the whole history are probed "
            "as in C09. Oracle: the re-rooted table exports exactly what the origin exports (names, order, rows); reference "
            "scoping model for old/new references (ColumnNotFoundError for cut-off ones); self-join and summarize results "
            "equal the reference; Polars, and SQLite for the alias kinds. non-trivial = prefix has a hidden or renamed "
            "column and an old reference is probed after the re-rooting")
    N = {"quick": 2000, "thorough": 50000}

    def strategy(self, tier):
        return c16_case(tier)

    def examine(self, case) -> Outcome:
        out = Outcome()
        classify_case(case, out)
        backends = ("polars",) if case.get("pl_only") else ("polars", "sqlite")
        rvars = [case["result"]]
        run = examine_pipeline(case, out, backends=backends, close=False, result_vars=rvars)
        try:
            if out.discard is None and case.get("rerooted"):
                self._unchanged(case, out, run)
            self._probes(case, out, run)
        finally:
            close_run(run)
        old_probed = any(p["in_scope"] for p in case.get("probes", [])) or any(not p["in_scope"] for p in case.get("probes", []))
        out.nontrivial = bool(out.discard is None and case.get("rerooted") and case.get("prefix_hidden_or_renamed") and old_probed)
        return out

    def _unchanged(self, case, out, run):
        o, r = case.get("origin_cmp") or case["origin"], case["rerooted"]
        for kind, b in run.built.items():
            if b.error is not None or o not in b.vars or r not in b.vars:
                continue
            try:
                d0, d1 = build.export_polars(b.vars[o]), build.export_polars(b.vars[r])
            except BaseException as ex:  # noqa: BLE001
                reraise_control(ex)
                if (kind == "sqlite" and is_refusal(ex)) or engine_quirk(ex, run.case2, run.ref):
                    continue
                out.fail("internal-error", f"{kind}:export:{exc_name(ex)}", f"{kind}: export around the re-rooting raised {exc_name(ex)}: {str(ex)[:200]}")
                continue
            try:
                t = run.ref.vars[r]
                exact = kind == "polars" and t.base_pl
                oracle.compare_frames(d0, d1, order="sequence" if exact else "multiset", tol=(0.0, 0.0))
                out.count(f"unchanged:{kind}")
                if [str(x) for x in d0.dtypes] != [str(x) for x in d1.dtypes] and d0.height > 0:
                    out.fail("dtypes", f"{kind}:reroot-dtypes:{case['kind']}", f"{kind}: dtypes changed {d0.dtypes} -> {d1.dtypes}")
            except oracle.Mismatch as mm:
                out.fail("mismatch", f"{kind}:reroot:{case['kind']}:{mm.kind}", f"{kind}: {case['kind']} changed the exported table: {mm}")


CHECK = C16()
