"""C02 — single-table row-level verbs compute their documented meaning (DESIGN §6 C02)."""
from __future__ import annotations

from .. import pipegen
from ..exprgen import Cfg
from ..pipeline_oracle import classify_case, examine_pipeline
from ..runner import Outcome
from . import Check


class C02(Check):
    ID = "C02"
    RULE = ("Hypothesis composite strategy: one source table, 2-8 verbs from select/drop/rename/mutate/filter/"
            "slice_head/group_by/ungroup/alias/arrange with element-wise expressions (captured and C. references); "
            "result of Polars and SQLite export compared with the reference interpreter (names, order, rows). "
            "non-trivial = >=2 verbs incl. a mutate or filter, non-empty input, and a column overwritten, hidden "
            "or renamed; distinct = distinct canonical IR hash")
    N = {"quick": 4000, "thorough": 150000}

    def cfg(self, tier):
        deep = tier == "thorough"
        return pipegen.PCfg(
            weights={"summarize": 0, "join": 0, "union": 0, "collect": 0, "mutate": 16, "filter": 10, "select": 7,
                     "rename": 7, "drop": 4, "slice_head": 6, "arrange": 6, "group_by": 3, "ungroup": 2, "alias": 3},
            max_len=10 if deep else 7, min_len=2, agg_in_mutate=False, win_in_mutate=False, max_tables=1,
            expr=Cfg(max_depth=4 if deep else 3),
        )

    def strategy(self, tier):
        return pipegen.pipeline_case(self.cfg(tier))

    def examine(self, case) -> Outcome:
        out = Outcome()
        classify_case(case, out)
        run = examine_pipeline(case, out)
        verbs = [s["verb"] for s in case["steps"] if s["verb"] != "source"]
        cls = set(case.get("_gen", {}).get("classes", [])) if "_gen" in case else _classes(case)
        nonempty = all(len(t["rows"]) > 0 for t in case["tables"])
        out.nontrivial = (out.discard is None and len(verbs) >= 2 and ("mutate" in verbs or "filter" in verbs)
                          and nonempty and bool(cls & {"overwrite", "rename", "rename_swap", "select_subset"}
                                               or "drop" in verbs))
        return out


def _classes(case):
    res = set()
    for s in case["steps"]:
        if s["verb"] == "rename":
            res.add("rename")
        if s["verb"] in ("select", "drop"):
            res.add("select_subset")
    return res


CHECK = C02()
