"""C14 — ill-formed pipelines are rejected when built, with the documented error (DESIGN §6 C14)."""
from __future__ import annotations

from hypothesis import strategies as st

from .. import build, oracle, pipegen, refsem
from ..exprgen import Cfg, Scope
from ..pipeline_oracle import classify_case, engine_quirk, examine_pipeline, exc_name, reraise_control
from ..runner import Outcome
from . import Check

PREFIX_W = {"select": 6, "rename": 5, "mutate": 10, "filter": 6, "arrange": 3, "group_by": 3, "ungroup": 1, "drop": 2, "alias": 2,
            "summarize": 2, "join": 2, "slice_head": 1, "union": 0, "collect": 0}

EXPR_OFFENDERS = ["illtyped", "nested_agg", "marker", "bad_cast", "unknown_col"]
EXPR_ERR = {"illtyped": "DataTypeError", "nested_agg": "FunctionTypeError", "marker": "TypeError", "bad_cast": "DataTypeError",
            "unknown_col": "ColumnNotFoundError"}
VERB_OFFENDERS = {
    "filter_nonbool": "DataTypeError", "filter_agg": "FunctionTypeError", "summarize_window": "FunctionTypeError",
    "summarize_nonkey": "FunctionTypeError", "select_unknown": "ColumnNotFoundError", "select_hidden": "ColumnNotFoundError",
    "rename_dup": "ValueError", "rename_dup_new": "ValueError", "rename_unknown": "ValueError", "group_by_hidden": "ValueError", "slice_grouped": "ValueError",
    "join_grouped": "ValueError", "join_same_origin": "ValueError", "join_backends": "TypeError", "join_suffix_dup": "ValueError",
    "join_on_nonbool": "DataTypeError", "join_on_agg": "FunctionTypeError", "join_full_noneq": "ValueError",
    "join_on_unknown": "ValueError", "join_on_out_of_scope": "ValueError", "marker_in_filter": "TypeError",
    "filter_null": "DataTypeError", "join_same_origin_via_union": "ValueError", "mutate_agg_of_window": "FunctionTypeError",
}
POSITIONS = ["top", "is_null", "coalesce", "case_value", "case_cond", "ctx_filter", "ctx_arrange", "nested2"]
CONTEXTS = ["mutate", "filter", "arrange", "summarize", "join_on"]


def wrap(pos, e, anycol):
    """Place offender e at a syntactic position; the wrapper itself is well-typed for any e."""
    if pos == "top":
        return e
    if pos == "is_null":
        return ["fn", "is_null", [e], {}]
    if pos == "coalesce":
        return ["fn", "coalesce", [e, e], {}]
    if pos == "case_value":
        return ["case", [[["fn", "is_not_null", [anycol], {}], e]], None]
    if pos == "case_cond":
        return ["case", [[["fn", "is_null", [e], {}], ["lit", 1]]], ["lit", 0]]
    if pos == "ctx_filter":
        return ["fn", "count", [anycol], {"filter": [["fn", "is_null", [e], {}]]}]
    if pos == "ctx_arrange":
        return ["fn", "rank", [], {"arrange": [[["fn", "is_null", [e], {}], False, "last", 0]]}]
    if pos == "nested2":
        return ["fn", "fill_null", [["fn", "coalesce", [e], {}], ["fn", "coalesce", [e], {}]], {}]
    raise AssertionError(pos)


@st.composite
def c14_case(draw, tier):
    deep = tier == "thorough"
    if draw(st.integers(0, 9)) < 2:
        cfg = pipegen.PCfg(max_len=8 if deep else 6, min_len=2, sql=False, expr=Cfg(max_depth=3, win_no_arrange=True),
                           weights={"collect": 2})
        case = draw(pipegen.pipeline_case(cfg))
        case["mode"] = "converse"
        return case
    cfg = pipegen.PCfg(weights=PREFIX_W, max_len=6 if deep else 4, min_len=0, max_tables=2, sub_len=1,
                       agg_in_mutate=True, win_in_mutate=True, expr=Cfg(max_depth=2))
    g = pipegen.PipeGen(draw, cfg)
    var = g.source()
    var = g.extend(var, draw(st.integers(0, cfg.max_len)))
    case = g.case
    case["result"] = var
    case["mode"] = "reject"
    t = g.t(var)
    sc = Scope(g.env, t, captures=True)
    use_c = draw(st.booleans())

    def col_of(fam):
        cands = [r for r, c in sc.by_fam.get(fam, []) if ("c" in r) == use_c] or [r for r, _ in sc.by_fam.get(fam, [])]
        return ["col", draw(st.sampled_from(cands))] if cands else None

    anyc = None
    for f in ("int", "float", "str", "bool", "date", "datetime"):
        anyc = anyc or col_of(f)
    if anyc is None:
        case["mode"] = "skip"
        return case
    kind = draw(st.sampled_from(["expr"] * 6 + ["verb"] * 4))
    off = {"kind": kind}
    if kind == "expr":
        which = draw(st.sampled_from(EXPR_OFFENDERS))
        e = None
        if which == "illtyped":
            s_, i_, b_ = col_of("str"), col_of("int") or col_of("float"), col_of("bool")
            opts = []
            if s_:
                opts += [["fn", "add", [s_, ["lit", 1]], {}], ["fn", "lt", [s_, ["lit", 3]], {}], ["fn", "abs", [s_], {}]]
            if i_:
                opts += [["fn", "and", [i_, ["lit", True]], {}], ["fn", "str.len", [i_], {}], ["fn", "str.upper", [i_], {}]]
            if b_:
                opts += [["fn", "mul", [b_, ["lit", 2]], {}], ["fn", "floor", [b_], {}]]
            e = draw(st.sampled_from(opts)) if opts else None
        elif which == "nested_agg":
            i_ = col_of("int") or col_of("float")
            if i_:
                inner = draw(st.sampled_from(["max", "sum"]))
                outer = draw(st.sampled_from(["sum", "min"]))
                e = ["fn", outer, [["fn", "add", [["fn", inner, [i_], {}], ["lit", 1]], {}]], {}]
                if draw(st.booleans()):
                    e = ["fn", "cum_sum", [["fn", inner, [i_], {}]], {"arrange": [[anyc, False, "last", 0]]}]
        elif which == "marker":
            e = ["marker", draw(st.sampled_from(["descending", "nulls_first", "nulls_last", "ascending"])), anyc]
        elif which == "bad_cast":
            b_, s_, d_ = col_of("bool"), col_of("str"), col_of("date")
            opts = []
            if b_:
                opts.append(["cast", b_, "str"])
            if s_:
                opts += [["cast", s_, "date"], ["cast", s_, "bool"]]
            if d_:
                opts += [["cast", d_, "int64"], ["cast", d_, "float64"]]
            e = draw(st.sampled_from(opts)) if opts else None
        elif which == "unknown_col":
            e = ["col", {"c": draw(st.sampled_from([n for n in ["zz", "nope", "id_x"] if n not in t.names()]))}]
        if e is None:
            case["mode"] = "skip"
            return case
        pos = draw(st.sampled_from(POSITIONS))
        if which == "marker" and pos == "top":
            pos = "coalesce"
        ctx = draw(st.sampled_from(CONTEXTS))
        if t.group and ctx == "join_on":
            ctx = "mutate"
        if which == "nested_agg" and ctx in ("filter", "join_on"):
            ctx = "mutate"  # (aggregates in filter/on are separate rules)
        expect = EXPR_ERR[which]
        if which == "unknown_col" and ctx == "join_on":
            expect = "ValueError"  # names in `on` are resolved against both tables (verbs.py join)
        off.update({"which": which, "expr": e, "pos": pos, "ctx": ctx, "expect": expect, "anycol": anyc})
        if ctx == "join_on":
            off["right"] = g.source(name="rj")
    else:
        which = draw(st.sampled_from(sorted(VERB_OFFENDERS)))
        off.update({"which": which, "expect": VERB_OFFENDERS[which], "anycol": anyc})
        hidden = [r for r, c in sc.capt if c not in {cc for _, cc in t.visible}]
        if which in ("select_hidden", "group_by_hidden"):
            if not hidden:
                case["mode"] = "skip"
                return case
            off["ref"] = draw(st.sampled_from(hidden))
        if which == "join_on_out_of_scope":
            # a reference whose column is gone from the table (cut off by summarize / alias / union ...): `on` must
            # refuse it although the reference's table is an ancestor
            def gone_refs():
                return [{"v": v, "n": n} for v, src in g.env.vars.items() if "~" not in v
                        for n, c in src.visible if c not in t.scope and src.fam[c] == "int"]

            gone = gone_refs()
            if not gone or draw(st.booleans()):
                # cut columns off with a summarize
                try:
                    sv = g.v_summarize(var)
                except (pipegen.OutOfDomain, pipegen.GenSkip):
                    sv = None
                if sv is not None:
                    var = sv
                    if g.t(var).group:
                        var = g.emit({"out": g.new_var(), "verb": "ungroup", "in": var}) or var
                    case["result"] = var
                    t = g.t(var)
                    gone = gone_refs()
            if not gone:
                case["mode"] = "skip"
                return case
            off["ref"] = draw(st.sampled_from(gone))
        if which in ("filter_nonbool", "join_on_nonbool"):
            c = col_of("int") or col_of("str") or col_of("float") or col_of("date")
            if c is None:
                case["mode"] = "skip"
                return case
            off["col"] = c
        if which in ("filter_agg", "join_on_agg", "summarize_window", "mutate_agg_of_window", "summarize_nonkey"):
            c = col_of("int") or col_of("float")
            nonkey = [r for r, c_, f in sc.vis_refs if c_ not in t.group]
            if c is None or not nonkey:
                case["mode"] = "skip"
                return case
            off["col"] = c
            off["nonkey"] = ["col", draw(st.sampled_from(nonkey))]
        if which.startswith("join") and which != "join_grouped" and t.group:
            case["mode"] = "skip"
            return case
        if which == "join_grouped" and not t.group and len(t.visible) == 0:
            case["mode"] = "skip"
            return case
        if which in ("rename_dup", "rename_dup_new") and len(t.visible) < 2:
            case["mode"] = "skip"
            return case
        if which == "slice_grouped" and not t.group:
            off["group_first"] = t.names()[0]
        if which in ("slice_grouped", "join_grouped"):
            off["hide_alias"] = draw(st.booleans())
        if which == "filter_null":
            off["null_variant"] = draw(st.integers(0, 1))
        if which == "join_same_origin_via_union" and t.group:
            case["mode"] = "skip"
            return case
        if which.startswith("join"):
            off["right"] = g.source(name="rj")
    hidden_group = any(c not in {cc for _, cc in t.visible} for c in t.group)
    if hidden_group and (off.get("ctx") == "summarize" or str(off.get("which", "")).startswith("summarize")):
        # summarize on a table with a deselected grouping column is itself rejected (ValueError): that would be a
        # second offender
        case["mode"] = "skip"
        return case
    case["offender"] = off
    case["_gen"] = {"skipped": g.skipped, "gen_rejects": g.gen_rejects, "classes": sorted(g.classes)}
    return case


def kind_of(tbl):
    return "polars" if type(tbl._ast).__name__ == "PolarsImpl" or "Polars" in type(_leaf(tbl._ast)).__name__ else "sql"


def _leaf(nd):
    while hasattr(nd, "child"):
        nd = nd.child
    return nd


class MBuilder(build.Builder):
    def expr(self, e):
        if e[0] == "marker":
            x = self._ce(self.expr(e[2]))
            return getattr(x, e[1])()
        return super().expr(e)


class C14(Check):
    ID = "C14"
    RULE = ("Hypothesis composite strategy: a valid generated history followed by one verb call with exactly one offender: "
            "(a) expression offenders (ill-typed operator call, nested aggregate/window, ordering marker outside arrange, "
            "invalid cast pair, unknown C. column) planted at a generated position (top level, inside is_null / coalesce / "
            "nested calls, case value, case condition, filter= / arrange= context arguments) via C. or table references in "
            "a generated verb context (mutate, filter, arrange, summarize, join on); (b) verb-level offenders (non-boolean "
            "filter/on, aggregate in filter/on, window in summarize, non-key column in summarize, unknown/hidden column in "
            "select, duplicate (also two columns to one new name) or unknown rename, group_by of a hidden column, slice_head on a grouped table, join of "
            "grouped / same-origin / different-backend tables, colliding user suffix, full join with a non-equality, a join "
            "condition over a column that a summarize / alias / union has cut off). "
            "Oracle: the call raises exactly the documented exception type on Polars and on SQLite and the input table "
            "exports the same frame afterwards; 20% converse cases: accepted Polars pipelines must export without an "
            "internal error. non-trivial = offender nested at depth >=1 or preceded by >=2 verbs")
    N = {"quick": 3000, "thorough": 80000}

    def strategy(self, tier):
        return c14_case(tier)

    def examine(self, case) -> Outcome:
        out = Outcome()
        classify_case(case, out)
        mode = case.get("mode")
        out.classes.append("mode:" + str(mode))
        if mode == "skip":
            out.discard = "no-offender-possible"
            return out
        if mode == "converse":
            examine_pipeline(case, out, backends=("polars",))
            out.nontrivial = out.discard is None and len(case["steps"]) >= 3
            return out
        try:
            refsem.run(case)
        except refsem.OutOfDomain as ex:
            out.discard = "out-of-domain"
            return out
        except refsem.RefReject as ex:
            out.discard = f"ref-reject:{ex.kind}"
            return out
        off = case["offender"]
        out.classes.append("offender:" + off["which"])
        if off["kind"] == "expr":
            out.classes += ["pos:" + off["pos"], "ctx:" + off["ctx"]]
        for kind in ("polars", "sqlite"):
            bk = build.Backend(kind)
            other = build.Backend("sqlite" if kind == "polars" else "polars") if off["which"] == "join_backends" else None
            try:
                self._one(case, off, kind, bk, other, out)
            finally:
                bk.close()
                if other:
                    other.close()
        nverbs = len([s for s in case["steps"] if s["verb"] != "source"])
        out.nontrivial = out.discard is None and ((off["kind"] == "expr" and off["pos"] != "top") or nverbs >= 2)
        return out

    def _right(self, off, b):
        """Right join operand with names that cannot make a C. reference of the left table ambiguous."""
        import pydiverse.transform as pdt

        if not off.get("right"):
            return None
        r = b.vars[off["right"]]
        return r >> pdt.rename({n: n + "_rj" for n in (r >> pdt.columns())})

    def _call(self, off, b, tbl):
        """Perform the offending verb call (returns nothing; must raise)."""
        import pydiverse.transform as pdt

        which = off["which"]
        anyc = off.get("anycol")
        if off["kind"] == "expr":
            e = wrap(off["pos"], off["expr"], anyc)
            ctx = off["ctx"]
            if ctx == "mutate":
                return tbl >> pdt.mutate(zz_new=b.expr(e))
            if ctx == "filter":
                return tbl >> pdt.filter(b.expr(["fn", "is_null", [e], {}]))
            if ctx == "arrange":
                return tbl >> pdt.arrange(b.order([["fn", "coalesce", [e], {}], True, "last", 0]))
            if ctx == "summarize":
                return tbl >> pdt.summarize(zz_new=b.expr(["fn", "count", [e], {}]))
            if ctx == "join_on":
                right = self._right(off, b)
                return tbl >> pdt.join(right, b.expr(["fn", "is_null", [e], {}]), "inner", suffix="_zz")
        if which == "filter_nonbool":
            return tbl >> pdt.filter(b.expr(off["col"]))
        if which == "filter_agg":
            return tbl >> pdt.filter(b.expr(["fn", "gt", [["fn", "max", [off["col"]], {}], ["lit", 0]], {}]))
        if which == "marker_in_filter":
            return tbl >> pdt.filter(b.expr(["fn", "is_null", [["marker", "descending", anyc]], {}]))
        if which == "summarize_window":
            return tbl >> pdt.summarize(zz_new=b.expr(["fn", "rank", [], {"arrange": [[off["col"], False, "last", 0]]}]))
        if which == "mutate_agg_of_window":
            return tbl >> pdt.mutate(zz_new=b.expr(["fn", "sum", [["fn", "rank", [], {"arrange": [[off["col"], False, "last", 0]]}]], {}]))
        if which == "summarize_nonkey":
            return tbl >> pdt.summarize(zz_new=b.expr(["fn", "and", [["fn", "is_null", [off["nonkey"]], {}],
                                                                     ["fn", "ge", [["fn", "count_star", [], {}], ["lit", 0]], {}]], {}]))
        if which == "select_unknown":
            return tbl >> pdt.select("zz_nope")
        if which == "select_hidden":
            return tbl >> pdt.select(b.colref(off["ref"]))
        if which == "group_by_hidden":
            return tbl >> pdt.group_by(b.colref(off["ref"]))
        if which == "rename_dup":
            names = tbl >> pdt.columns()
            return tbl >> pdt.rename({names[0]: names[1]})
        if which == "rename_dup_new":
            # two columns mapped to the same (new) name
            names = tbl >> pdt.columns()
            return tbl >> pdt.rename({names[0]: "zz_same", names[-1]: "zz_same"})
        if which == "rename_unknown":
            return tbl >> pdt.rename({"zz_nope": "zz_other"})
        def hide_and_alias(t2):
            # the grouping survives deselecting the grouping column and a re-rooting alias()
            if not off.get("hide_alias"):
                return t2
            vis_group = [t2._cache.uuid_to_name[u] for u in t2._cache.partition_by if u in t2._cache.uuid_to_name]
            if vis_group and len(t2 >> pdt.columns()) >= 2:
                t2 = t2 >> pdt.drop(vis_group[0])
            return t2 >> pdt.alias()

        if which == "slice_grouped":
            t2 = tbl >> pdt.group_by(off["group_first"]) if "group_first" in off else tbl
            return hide_and_alias(t2) >> pdt.slice_head(2)
        right = self._right(off, b)
        if which == "join_grouped":
            names = tbl >> pdt.columns()
            lt = tbl if tbl._cache.partition_by else tbl >> pdt.group_by(names[0])
            return hide_and_alias(lt) >> pdt.join(right, [], "inner", suffix="_zz")
        if which == "join_same_origin":
            return tbl >> pdt.join(tbl >> pdt.filter(True), [], "inner", suffix="_zz")
        if which == "join_same_origin_via_union":
            # the other operand entered the left one as the *right* operand of a union
            u2 = tbl >> pdt.alias("copy")
            return tbl >> pdt.union(u2) >> pdt.join(u2, [], "inner", suffix="_zz")
        if which == "filter_null":
            pred = pdt.lit(None) if off.get("null_variant", 0) == 0 else pdt.when(b.expr(["fn", "is_not_null", [anyc], {}])).then(None)
            return tbl >> pdt.filter(pred)
        if which == "join_backends":
            return tbl >> pdt.join(off["_other_table"], [], "inner", suffix="_zz")
        if which == "join_suffix_dup":
            lname = (tbl >> pdt.columns())[0]
            r2 = right >> pdt.select() >> pdt.mutate(**{lname[:-1] if len(lname) > 1 else "q": pdt.lit(1)})
            sfx = lname[-1] if len(lname) > 1 else None
            if sfx is None:
                r2 = right >> pdt.select() >> pdt.mutate(q=pdt.lit(1))
                tbl = tbl >> pdt.mutate(q_s=pdt.lit(2))
                sfx = "_s"
            return tbl >> pdt.join(r2, [], "inner", suffix=sfx)
        if which == "join_on_nonbool":
            return tbl >> pdt.join(right, b.expr(off["col"]), "inner", suffix="_zz")
        if which == "join_on_agg":
            return tbl >> pdt.join(right, b.expr(["fn", "gt", [["fn", "max", [off["col"]], {}], ["lit", 0]], {}]), "inner", suffix="_zz")
        if which == "join_full_noneq":
            return tbl >> pdt.join(right, b.expr(["fn", "is_not_null", [anyc], {}]), "full", suffix="_zz")
        if which == "join_on_unknown":
            return tbl >> pdt.join(right, pdt.C.zz_nope == pdt.C.zz_nope2, "inner", suffix="_zz")
        if which == "join_on_out_of_scope":
            rid = next(c for c in right if c.name.startswith("id"))  # the right operand's columns carry a suffix
            return tbl >> pdt.join(right, b.colref(off["ref"]) == rid, "inner", suffix="_zz")
        raise AssertionError(which)

    def _one(self, case, off, kind, bk, other, out):
        b = MBuilder(case, bk)
        for s in case["steps"]:
            try:
                b.step(s)
            except BaseException as ex:  # noqa: BLE001
                reraise_control(ex)
                if exc_name(ex) in ("SubqueryError", "NotSupportedError") and kind == "sqlite":
                    out.count("prefix_refused_on_sql")
                    return
                out.fail("internal-error", f"{kind}:prefix:{s['verb']}:{exc_name(ex)}", f"{kind}: valid prefix verb raised {exc_name(ex)}: {str(ex)[:200]}")
                return
        tbl = b.vars[case["result"]]
        if other is not None:
            ob = MBuilder(case, other)
            ob.step({"out": "o0", "verb": "source", "table": case["tables"][0]["name"], "name": "rj"})
            off = dict(off, _other_table=ob.vars["o0"])
        before = None
        try:
            before = build.export_polars(tbl)
        except BaseException as ex:  # noqa: BLE001
            reraise_control(ex)
        want = off["expect"]
        try:
            self._call(off, b, tbl)
            out.fail("accepted", f"{kind}:{off['which']}:{off.get('pos', '-')}:{off.get('ctx', '-')}",
                     f"{kind}: offender {off['which']} (position {off.get('pos')}, context {off.get('ctx')}) was accepted, expected {want}")
        except BaseException as ex:  # noqa: BLE001
            reraise_control(ex)
            got = exc_name(ex)
            if got == "SubqueryError" and kind == "sqlite":
                out.count("sql_subquery_before_rejection")
            elif got != want:
                out.fail("wrong-exception", f"{kind}:{off['which']}:{off.get('ctx', '-')}:{got}",
                         f"{kind}: offender {off['which']} (position {off.get('pos')}, context {off.get('ctx')}) raised {got}, "
                         f"expected {want}: {str(ex)[:200]}")
            else:
                out.count(f"rejected_as_documented:{kind}")
        if before is not None:
            try:
                after = build.export_polars(tbl)
                same = True
                try:
                    oracle.compare_frames(before, after, order="multiset", tol=(0.0, 0.0))
                except oracle.Mismatch:
                    same = False
                if not same and kind == "polars":
                    out.fail("input-changed", f"{kind}:input-table", "the input table exports a different frame after the rejected call")
            except BaseException as ex:  # noqa: BLE001
                reraise_control(ex)
                out.fail("input-unusable", f"{kind}:{exc_name(ex)}", f"the input table cannot be exported after the rejected call: {exc_name(ex)}")


CHECK = C14()
