"""C06 — join: exact row combinations, collision-free names, all columns reachable (DESIGN §6 C06)."""
from __future__ import annotations

import re

from hypothesis import strategies as st

from .. import build, oracle, pipegen, refsem
from ..exprgen import Cfg
from ..pipeline_oracle import classify_case, close_run, examine_pipeline, exc_name, is_refusal
from ..runner import Outcome
from . import Check


def names_valid(left, right, got, right_name, user_suffix):
    """Validity predicate for the column names after a join (both readings of the docstring)."""
    if len(got) != len(left) + len(right):
        return f"expected {len(left) + len(right)} columns, got {len(got)}"
    if got[: len(left)] != left:
        return f"left names changed: {got[:len(left)]} vs {left}"
    if len(set(got)) != len(got):
        return f"duplicate names {got}"
    rn = got[len(left):]
    sfx = set()
    for orig, new in zip(right, rn):
        if new == orig:
            if user_suffix:
                return f"user suffix not applied to {orig}"
            if orig in left:
                return f"colliding name {orig} kept"
            continue
        if not new.startswith(orig):
            return f"{orig} renamed to {new}"
        sfx.add(new[len(orig):])
    if len(sfx) > 1:
        return f"inconsistent suffixes {sorted(sfx)}"
    for s in sfx:
        if user_suffix:
            if s != user_suffix:
                return f"suffix {s} instead of user suffix {user_suffix}"
        else:
            base = re.escape(right_name) if right_name is not None else "right"
            if not re.fullmatch(rf"_({base}|right)(_\d+)?", s):
                return f"suffix {s} not of the documented form for table name {right_name}"
    return None


@st.composite
def join_case(draw, tier):
    deep = tier == "thorough"
    cfg = pipegen.PCfg(
        weights={"filter": 8, "mutate": 8, "select": 6, "rename": 8, "alias": 3, "drop": 2, "arrange": 1, "slice_head": 0,
                 "group_by": 0, "ungroup": 0, "summarize": 0, "join": 0, "union": 0, "collect": 0},
        max_len=4 if deep else 3, min_len=0, agg_in_mutate=False, win_in_mutate=False, max_tables=3, sub_len=3 if deep else 2,
        expr=Cfg(max_depth=3 if deep else 2),
    )
    g = pipegen.PipeGen(draw, cfg)
    var = g.source()
    var = g.extend(var, draw(st.integers(0, cfg.max_len)))
    jv = None
    for _ in range(3):
        jv = g.v_join(var)
        if jv is not None:
            break
    if jv is None:
        # fall back to a plain cross join with a fresh source
        r = g.source()
        jv = g.emit({"out": g.new_var(), "verb": "join", "in": var, "right": r, "how": "inner", "cross": True, "on": []})
    case = g.case
    case["join_var"] = jv
    # probes: every column of either input (visible or hidden) through its original reference
    t = g.t(jv)
    sc = g.scope(jv)
    seen, probes = set(), []
    refs = list(sc.capt)
    refs = list(draw(st.permutations(refs)))[:8] if refs else []
    for ref, cid in refs:
        if (cid, ref["v"]) in seen:
            continue
        seen.add((cid, ref["v"]))
        probes.append([f"pr{len(probes)}", ["col", ref]])
    vis_c = {c for _, c in t.visible}
    if probes:
        pv = g.emit({"out": g.new_var(), "verb": "mutate", "in": jv, "items": probes})
        sv = g.emit({"out": g.new_var(), "verb": "select", "in": pv, "cols": [{"c": n} for n, _ in probes]})
        case["result"] = sv
        case["_hidden_probed"] = any(c not in vis_c for _, c in refs)
    else:
        case["result"] = jv
    case["_gen"] = {"skipped": g.skipped, "gen_rejects": g.gen_rejects, "classes": sorted(g.classes), "excluded": g.excluded}
    return case


class C06(Check):
    ID = "C06"
    RULE = ("Hypothesis composite strategy: two operand pipelines (prefix verbs filter/mutate/select/rename/alias over two "
            "source tables or a table and its alias), how in inner/left/full/cross, on = equality, list, string shorthand, "
            "conjunction, inequality (full: equalities only); duplicate/null keys and empty sides from the table strategy; "
            "name collisions visible/visible, visible/hidden, hidden/hidden, user suffix, table-name suffix, numeric "
            "suffix (name pool contains x_r, x_t1, x_t1_1); after the join one probe column per reachable column of either "
            "input through its original reference. Oracle: reference nested-loop join (multiset), validity predicate for "
            "the names, probe columns equal the referenced data; Polars and SQLite. non-trivial = a matching and a "
            "non-matching key or a null key, and a name collision or a hidden column probed")
    N = {"quick": 3000, "thorough": 80000}

    def strategy(self, tier):
        return join_case(tier)

    def examine(self, case) -> Outcome:
        out = Outcome()
        classify_case(case, out)
        jv = case.get("join_var")
        if jv is None:  # plain pipeline witness: take its last join
            joins = [s["out"] for s in case["steps"] if s["verb"] == "join"]
            if not joins:
                examine_pipeline(case, out)
                return out
            jv = joins[-1]
        run = examine_pipeline(case, out, result_vars=[case["result"]], close=False)
        try:
            return self._examine_join(case, out, run, jv)
        finally:
            close_run(run)

    def _examine_join(self, case, out, run, jv):
        if out.discard is not None or run.ref is None:
            return out
        jstep = next(s for s in run.case2["steps"] if s["out"] == jv)
        L, R, J = run.ref.vars[jstep["in"]], run.ref.vars[jstep["right"]], run.ref.vars[jv]
        for kind, b in run.built.items():
            if b.error is not None or jv not in b.vars:
                continue
            if kind == "sqlite" and run.ref.pl_only:
                continue
            try:
                df = build.export_polars(b.vars[jv])
            except BaseException as ex:  # noqa: BLE001
                from ..pipeline_oracle import reraise_control, engine_quirk

                reraise_control(ex)
                if (kind == "sqlite" and is_refusal(ex)) or engine_quirk(ex, run.case2, run.ref):
                    continue
                if kind == "polars" and jstep.get("how") != "full" and exc_name(ex) in (
                        "InvalidOperationError", "ComputeError", "SchemaError") and out.classes.count("gen:nonequi_join"):
                    out.count("polars_join_where_refusal")  # documented: depends on what polars can handle
                    continue
                df = None
                if kind == "polars":
                    # the Polars optimizer panics / raises on a plan that collects without it (DESIGN 4.15 g)
                    try:
                        df = build.export_polars_noopt(b.vars[jv])
                        out.count("engine_quirk:polars_optimizer_error")
                    except BaseException as ex2:  # noqa: BLE001
                        reraise_control(ex2)
                        df = None
                if df is None:
                    out.fail("internal-error", f"{kind}:export-join:{exc_name(ex)}", f"{kind} export of the join raised {exc_name(ex)}: {str(ex)[:300]}")
                    continue
            got = list(df.columns)
            # the metadata must agree as well
            msg = names_valid(L.names(), R.names(), got, R.name, jstep.get("suffix"))
            if msg:
                out.fail("names", f"{kind}:join-names", f"{kind}: {msg}; left={L.names()} right={R.names()} got={got}")
                continue
            if got != J.names():
                out.count("names_other_reading")
            df2 = df.rename(dict(zip(got, J.names()))) if got != J.names() else df
            try:
                oracle.compare_ref(J, df2, view="polars" if kind == "polars" else "sql")
                out.count(f"join_compared:{kind}")
            except oracle.Mismatch as mm:
                if kind == "polars":
                    # a wrong answer of the Polars optimizer (DESIGN 4.15 b): the same plan collected without it agrees
                    try:
                        d3 = build.export_polars_noopt(b.vars[jv])
                        d3 = d3.rename(dict(zip(list(d3.columns), J.names()))) if list(d3.columns) != J.names() else d3
                        oracle.compare_ref(J, d3, view="polars")
                        out.count("engine_quirk:polars_optimizer")
                        continue
                    except BaseException as ex3:  # noqa: BLE001
                        from ..pipeline_oracle import reraise_control

                        reraise_control(ex3)
                out.fail("mismatch", f"{kind}:join:{mm.kind}:{jstep.get('how')}", f"{kind} join result vs reference: {mm}")
        # non-triviality
        matched = J.n > 0
        unmatched = J.n < L.n * R.n or L.n * R.n == 0
        collision = bool(set(L.names()) & set(R.names()))
        out.nontrivial = bool(matched and unmatched and (collision or case.get("_hidden_probed")))
        out.classes.append("how:" + ("cross" if jstep.get("cross") else jstep["how"]))
        if collision:
            out.classes.append("name_collision")
        if jstep.get("suffix"):
            out.classes.append("user_suffix")
        return out


CHECK = C06()
