"""C04 — summarize and aggregate functions (DESIGN §6 C04)."""
from __future__ import annotations

from .. import pipegen
from ..exprgen import Cfg
from ..ir import AGG_OPS, step_exprs, walk_expr
from ..pipeline_oracle import classify_case, examine_pipeline
from ..runner import Outcome
from . import Check


class C04(Check):
    ID = "C04"
    RULE = ("Hypothesis composite strategy: [prefix verbs from filter/mutate/arrange/select/rename] >> group_by(keys) >> "
            "summarize(aggregates, incl. filter=, arithmetic over aggregates, grouping columns in expressions, overwritten "
            "keys) >> [suffix verbs: filter on aggregate/key, mutate, arrange, select, further summarize behind alias]; "
            "keys are computed, boolean, string or nullable columns, several keys, add=True chains or none; data classes "
            "all-null group, single-row group, empty table, null key arise from the table strategy. Oracle: reference "
            "(one row per distinct key tuple, keys then aggregates, values) vs Polars and SQLite. non-trivial = (>=2 "
            "groups or empty input) and an aggregate whose group contains a null or is filtered; distinct = IR hash")
    N = {"quick": 3000, "thorough": 100000}

    def cfg(self, tier):
        deep = tier == "thorough"
        return pipegen.PCfg(
            weights={"summarize": 18, "group_by": 12, "filter": 9, "mutate": 8, "arrange": 4, "select": 3, "rename": 3,
                     "drop": 1, "slice_head": 2, "ungroup": 2, "alias": 3, "join": 0, "union": 0, "collect": 0},
            max_len=9 if deep else 6, min_len=2, agg_in_mutate=True, win_in_mutate=False, max_tables=1,
            expr=Cfg(max_depth=4 if deep else 3),
        )

    def strategy(self, tier):
        return pipegen.pipeline_case(self.cfg(tier))

    def examine(self, case) -> Outcome:
        out = Outcome()
        classify_case(case, out)
        run = examine_pipeline(case, out)
        has_summ = any(s["verb"] == "summarize" for s in case["steps"])
        nt = False
        if out.discard is None and has_summ and run.ref is not None:
            for s in run.case2["steps"]:
                if s["verb"] != "summarize":
                    continue
                t_in = run.ref.vars.get(s["in"])
                t_out = run.ref.vars.get(s["out"])
                if t_in is None or t_out is None:
                    continue
                filt = any(nd[0] == "fn" and nd[1] in AGG_OPS and len(nd) > 3 and nd[3].get("filter")
                           for e in step_exprs(s) for nd in walk_expr(e))
                has_null = any(v is None for c in t_in.scope for v in t_in.data[c])
                if (t_out.n >= 2 or t_in.n == 0) and (has_null or filt):
                    nt = True
                out.classes.append("groups:" + ("0" if t_out.n == 0 else "1" if t_out.n == 1 else "many"))
                if t_in.n == 0:
                    out.classes.append("summarize:empty_input")
                if not t_in.group:
                    out.classes.append("summarize:ungrouped")
        out.nontrivial = nt
        return out


CHECK = C04()
