"""C20 — all export targets describe the same table (DESIGN §6 C20)."""
from __future__ import annotations

import math

from hypothesis import strategies as st

from .. import build, oracle, pipegen
from ..exprgen import Cfg, ExprGen, Scope
from ..pipeline_oracle import classify_case, close_run, engine_quirk, examine_pipeline, exc_name, is_refusal, reraise_control
from ..runner import Outcome
from . import Check


@st.composite
def c20_case(draw, tier):
    deep = tier == "thorough"
    cfg = pipegen.PCfg(max_len=6 if deep else 4, min_len=0, expr=Cfg(max_depth=2), sub_len=1,
                       weights={"slice_head": 10, "summarize": 10, "select": 10, "filter": 10})
    g = pipegen.PipeGen(draw, cfg)
    var = g.source()
    var = g.extend(var, draw(st.integers(0, cfg.max_len)))
    # bias towards the shapes with special targets: one row, one cell
    shape = draw(st.sampled_from(["any", "any", "one_row", "one_cell", "empty"]))
    t = g.t(var)
    if t.group:
        var = g.emit({"out": g.new_var(), "verb": "ungroup", "in": var}) or var
    if shape in ("one_row", "one_cell"):
        v2 = g.v_summarize(var) if draw(st.booleans()) and not g.t(var).group else None
        if v2 is None:
            v2 = g.v_slice_head(var)
            if v2 is not None:
                st_ = g.case["steps"][-1]
                st_["n"], st_["offset"] = 1, 0
                g.env.vars.pop(v2, None)
                g.case["steps"].pop()
                v2 = g.emit(st_)
        var = v2 or var
        if shape == "one_cell" and g.t(var).visible:
            tv = g.t(var)
            agg_names = [nm for nm, c in tv.visible if c in tv.agg_cols]
            # (K03, open finding: one column of an ungrouped summarize stays selected)
            n = draw(st.sampled_from(agg_names or tv.names()))
            var = g.emit({"out": g.new_var(), "verb": "select", "in": var, "cols": [{"c": n}]}) or var
    elif shape == "empty":
        var = g.emit({"out": g.new_var(), "verb": "filter", "in": var, "preds": [["fn", "is_null", [["col", {"c": g.t(var).names()[0]}]], {}]]}) or var
    case = g.case
    case["result"] = var
    # an expression over the source table for ColExpr.export
    src_var = case["steps"][0]["out"]
    mode = draw(st.sampled_from(["plain", "plain", "ftype", "grouped", "grouped"]))
    if mode == "grouped":
        # the expression is taken from a grouped table: aggregates / window functions are evaluated per group
        keys = [n for n, c in g.t(src_var).visible if n != "id"]
        gv = g.emit({"out": g.new_var(), "verb": "group_by", "in": src_var,
                     "cols": [{"v": src_var, "n": draw(st.sampled_from(keys))}], "add": False}) if keys else None
        if gv is None:
            mode = "ftype"
        else:
            src_var = gv
    sc = Scope(g.env, g.t(src_var), captures=True, c_refs=False, only_vars=[src_var])
    eg = ExprGen(draw, sc, Cfg(max_depth=2))
    fam = draw(st.sampled_from(["int", "float", "bool", "str"]))
    e = None
    if mode != "plain":
        e = eg.aggregate(fam, 1) if draw(st.booleans()) else eg.window(fam, 1)
        if e is not None:
            from ..exprgen import evaluate
            from ..refsem import OutOfDomain, RefReject

            try:
                evaluate(g.env, g.t(src_var), e, "mutate")
            except (OutOfDomain, RefReject):
                e = None
    if e is None:
        e = eg.gen(fam, 2)
    from ..ir import walk_expr

    if not any(nd[0] == "col" for nd in walk_expr(e)):
        e = ["col", {"v": src_var, "n": "id"}]
    case["expr"] = {"var": src_var, "expr": e, "mode": mode}
    case["_gen"] = {"skipped": g.skipped, "gen_rejects": g.gen_rejects, "classes": sorted(g.classes | {"shape:" + shape}),
                    "excluded": g.excluded}
    return case


def same(a, b):
    if a is None or b is None:
        return a is None and b is None
    if isinstance(a, float) and isinstance(b, float) and math.isnan(a) and math.isnan(b):
        return True
    return a == b


class C20(Check):
    ID = "C20"
    RULE = ("Hypothesis composite strategy: generated pipelines (biased towards one-row, one-cell and empty results) on "
            "Polars-backed and SQLite-backed tables plus a generated expression (element-wise, aggregate or window function) "
            "over the source table or a grouped view of it. Oracle: "
            "Polars(lazy=True).collect() equals Polars(); Pandas, DictOfLists, ListOfDicts and - for one-row / one-cell "
            "results - Dict / Scalar carry the same names, order and values (null <-> None/NA), wrong shapes raise TypeError; "
            "expr.export(Polars()) equals the column produced by mutate(c=expr); Table(exported) re-exports the same frame "
            "with the same dtypes; a SQL-backed Pandas export may raise NotImplementedError (clean refusal). non-trivial = "
            "result has a null or is empty or 1x1, and >=3 targets were compared")
    N = {"quick": 2500, "thorough": 60000}

    def strategy(self, tier):
        return c20_case(tier)

    def examine(self, case) -> Outcome:
        out = Outcome()
        classify_case(case, out)
        run = examine_pipeline(case, out, close=False)
        try:
            if out.discard is None:
                self._targets(case, out, run)
        finally:
            close_run(run)
        return out

    def _targets(self, case, out, run):
        import polars as pl

        import pydiverse.transform as pdt

        rv = case["result"]
        nt = False
        for kind, b in run.built.items():
            if b.error is not None or rv not in b.vars:
                continue
            df = run.frames.get((kind, rv))
            if df is None:
                continue
            if kind == "polars" and out.counters.get("engine_quirk:polars_optimizer"):
                continue  # the optimised plan of this pipeline is affected by a Polars optimizer bug (DESIGN §4.15)
            tbl = b.vars[rv]
            ordered = kind == "polars" and run.ref.vars[rv].base_pl
            compared = 0

            def rows_of(names, rows):
                return names, [tuple(r) for r in rows]

            base_names, base_rows = list(df.columns), [tuple(oracle.norm_cell(v) for v in r) for r in df.rows()]

            def check(label, names, rows):
                nonlocal compared
                compared += 1
                if list(names) != base_names:
                    out.fail("target", f"{kind}:{label}:names", f"{kind}: {label} has names {list(names)}, Polars() has {base_names}")
                    return
                rows = [tuple(oracle.norm_cell(v) if (v is None or isinstance(v, (str, bytes)) or not _isna(v) or _isnan(v)) else None for v in r)
                        for r in rows]
                if ordered:
                    ok = len(rows) == len(base_rows) and all(oracle.row_eq(a, c, (0.0, 0.0)) for a, c in zip(base_rows, rows))
                else:
                    ok = oracle.multiset_eq(base_rows, rows, (1e-12, 1e-12))
                if not ok:
                    out.fail("target", f"{kind}:{label}:values", f"{kind}: {label} differs from Polars(): {rows[:4]} vs {base_rows[:4]}")

            try:
                lz = tbl >> pdt.export(pdt.Polars(lazy=True))
                d2 = lz.collect() if isinstance(lz, pl.LazyFrame) else lz
                check("Polars(lazy=True)", d2.columns, d2.rows())
            except BaseException as ex:  # noqa: BLE001
                reraise_control(ex)
                if not engine_quirk(ex, run.case2, run.ref):
                    out.fail("internal-error", f"{kind}:lazy:{exc_name(ex)}", f"{kind}: Polars(lazy=True) raised {exc_name(ex)}: {str(ex)[:200]}")
            try:
                dol = tbl >> pdt.export(pdt.DictOfLists())
                n = len(next(iter(dol.values()))) if dol else 0
                check("DictOfLists", list(dol.keys()), [tuple(dol[k][i] for k in dol) for i in range(n)])
                lod = tbl >> pdt.export(pdt.ListOfDicts())
                if lod:
                    check("ListOfDicts", list(lod[0].keys()), [tuple(r.values()) for r in lod])
                elif base_rows:
                    out.fail("target", f"{kind}:ListOfDicts:values", "ListOfDicts is empty but the frame is not")
            except BaseException as ex:  # noqa: BLE001
                reraise_control(ex)
                if not engine_quirk(ex, run.case2, run.ref):
                    out.fail("internal-error", f"{kind}:dicts:{exc_name(ex)}", f"{kind}: dict export raised {exc_name(ex)}: {str(ex)[:200]}")
            try:
                pdf = tbl >> pdt.export(pdt.Pandas())
                check("Pandas", list(pdf.columns), [tuple(_py(v) for v in r) for r in pdf.itertuples(index=False, name=None)])
                # a null must stay a null (not NaN in a float column that was an integer / boolean column), i.e. a Table
                # made from the exported pandas frame has the column types of the Polars() export again
                back = pdt.Table(pdf) >> pdt.export(pdt.Polars())
                want = {n: oracle.dtype_family(t) for n, t in df.schema.items()}
                got = {n: oracle.dtype_family(t) for n, t in back.schema.items()}
                if want != got and df.width > 0:
                    diff = {n: (want[n], got.get(n)) for n in want if want[n] != got.get(n)}
                    out.fail("roundtrip", f"{kind}:Table(pandas)", f"{kind}: Table(Pandas export) has other column types than Polars(): {diff}")
                compared += 1
            except NotImplementedError:
                out.count("pandas_not_implemented:" + kind)
            except BaseException as ex:  # noqa: BLE001
                reraise_control(ex)
                if not engine_quirk(ex, run.case2, run.ref):
                    out.fail("internal-error", f"{kind}:pandas:{exc_name(ex)}", f"{kind}: Pandas export raised {exc_name(ex)}: {str(ex)[:200]}")
            # Dict / Scalar
            for target, applicable, label in ((pdt.Dict(), df.height == 1, "Dict"), (pdt.Scalar(), df.height == 1 and df.width == 1, "Scalar")):
                try:
                    r = tbl >> pdt.export(target)
                    if not applicable:
                        out.fail("target", f"{kind}:{label}:accepted", f"{kind}: {label} accepted a {df.shape} table")
                    elif label == "Dict":
                        check("Dict", list(r.keys()), [tuple(r.values())])
                    else:
                        if not same(oracle.norm_cell(r), base_rows[0][0]):
                            out.fail("target", f"{kind}:Scalar:values", f"{kind}: Scalar {r!r} vs {base_rows[0][0]!r}")
                        compared += 1
                except TypeError:
                    if applicable:
                        out.fail("target", f"{kind}:{label}:refused", f"{kind}: {label} refused a {df.shape} table")
                except BaseException as ex:  # noqa: BLE001
                    reraise_control(ex)
                    if not engine_quirk(ex, run.case2, run.ref):
                        out.fail("internal-error", f"{kind}:{label}:{exc_name(ex)}", f"{kind}: {label} raised {exc_name(ex)}: {str(ex)[:200]}")
            # Table(exported) round trip
            try:
                again = pdt.Table(df) >> pdt.export(pdt.Polars())
                if not again.equals(df) or dict(again.schema) != dict(df.schema):
                    out.fail("roundtrip", f"{kind}:Table(exported)", f"Table(exported) re-exports {again.schema} / differs from {df.schema}")
                compared += 1
            except BaseException as ex:  # noqa: BLE001
                reraise_control(ex)
                out.fail("internal-error", f"{kind}:roundtrip:{exc_name(ex)}", f"Table(exported) raised {exc_name(ex)}: {str(ex)[:200]}")
            has_null = any(v is None for r in base_rows for v in r)
            if compared >= 3 and (has_null or df.height == 0 or df.shape == (1, 1)):
                nt = True
            if df.shape == (1, 1):
                out.classes.append("shape:1x1")
            if df.height == 0:
                out.classes.append("shape:empty")
        # ColExpr.export
        ex_ = case.get("expr")
        if ex_:
            for kind, b in run.built.items():
                if b.error is not None or ex_["var"] not in b.vars:
                    continue
                try:
                    e = b.builder.expr(ex_["expr"])
                    ser = e.export(pdt.Polars())
                    ref_df = b.vars[ex_["var"]] >> pdt.mutate(zz_c=b.builder.expr(ex_["expr"])) >> pdt.select("zz_c") >> pdt.export(pdt.Polars())
                    a = [(oracle.norm_cell(v),) for v in ser.to_list()]
                    c = [tuple(oracle.norm_cell(v) for v in r) for r in ref_df.rows()]
                    ok = (len(a) == len(c) and all(oracle.row_eq(x, y, (0.0, 0.0)) for x, y in zip(a, c))) if kind == "polars" else oracle.multiset_eq(a, c, (1e-9, 1e-9))
                    if not ok:
                        out.fail("target", f"{kind}:ColExpr.export", f"{kind}: expr.export differs from mutate(c=expr): {a[:5]} vs {c[:5]}")
                    out.count("colexpr_export:" + kind)
                except BaseException as ex:  # noqa: BLE001
                    reraise_control(ex)
                    if is_refusal(ex) or engine_quirk(ex, run.case2, run.ref):
                        continue
                    from ..ir import walk_expr

                    if exc_name(ex) == "ValueError" and not any(nd[0] == "col" for nd in walk_expr(ex_["expr"])):
                        out.count("colexpr_export_without_column_refused")  # no table to evaluate it on
                        continue
                    out.fail("internal-error", f"{kind}:ColExpr.export:{exc_name(ex)}", f"{kind}: ColExpr.export raised {exc_name(ex)}: {str(ex)[:200]}")
        out.nontrivial = nt


def _isnan(v):
    return isinstance(v, float) and math.isnan(v)


def _isna(v):
    try:
        import pandas as pd

        r = pd.isna(v)
        return bool(r) if isinstance(r, (bool,)) or getattr(r, "shape", ()) == () else False
    except Exception:  # noqa: BLE001
        return False


def _py(v):
    import datetime as dt

    import pandas as pd

    if isinstance(v, float) and math.isnan(v):
        return v  # NaN is a value (0/0), not a null
    if v is None or (not isinstance(v, (str, bytes, list)) and _isna(v)):
        return None
    if isinstance(v, pd.Timestamp):
        return v.to_pydatetime()
    if hasattr(v, "item") and not isinstance(v, (dt.date, dt.datetime)):
        try:
            return v.item()
        except Exception:  # noqa: BLE001
            return v
    return v


CHECK = C20()
