"""C19 — every accepted pipeline compiles on every SQL dialect (DESIGN §6 C19)."""
from __future__ import annotations

import re
import uuid

from .. import build, pipegen, refsem
from ..exprgen import Cfg
from ..pipeline_oracle import classify_case, exc_name, innermost_repo_frame, is_refusal, reraise_control
from ..runner import Outcome
from . import Check

DIALECTS = ("sqlite", "postgresql", "mssql")
_STR = re.compile(r"N?'(?:[^']|'')*'")


def canon_anon(sql):
    """SQLAlchemy numbers anonymous subquery aliases (anon_N) from id()-based keys; two objects that reuse a
    memory address share a number (in disjoint scopes).  The numbers are masked."""
    return re.sub(r"\banon_\d+\b", "anon_N", sql)


def one_select(sql):
    s = _STR.sub("''", sql).strip()
    if not re.match(r"(?is)^\s*(with\b.*?\)\s*)?select\b", s) and not s.upper().startswith("SELECT"):
        return "does not start with SELECT"
    if ";" in s.rstrip(";"):
        return "more than one statement"
    if re.search(r"--|/\*", s):
        return "comment token"
    if s.count("(") != s.count(")"):
        return "unbalanced parentheses"
    return None


def operator_table():
    """Every operator x declared signature x backend: an implementation that compiles, or NotSupportedError."""
    import pydiverse.common as pc
    import sqlalchemy as sqa

    import pydiverse.transform as pdt
    from pydiverse.transform._internal.backend.mssql import MsSqlImpl
    from pydiverse.transform._internal.backend.polars import PolarsImpl
    from pydiverse.transform._internal.backend.postgres import PostgresImpl
    from pydiverse.transform._internal.backend.sqlite import SqliteImpl
    from pydiverse.transform._internal.errors import NotSupportedError
    from pydiverse.transform._internal.ops.op import Ftype
    from pydiverse.transform._internal.ops.ops.markers import Marker
    from pydiverse.transform._internal.tree import types
    from pydiverse.transform._internal.tree.col_expr import ColFn, LiteralCol

    from .. import env as _env
    from .c13 import all_ops

    import datetime as dt
    import polars as pl

    base = {"Int": pc.Int64(), "Float": pc.Float64(), "String": pc.String(), "Bool": pc.Bool(), "Date": pc.Date(),
            "Datetime": pc.Datetime()}
    colname = {"Int64": "i", "Float64": "f", "String": "s", "Bool": "b", "Date": "d", "Datetime": "t"}
    sample = {"Int64": 2, "Float64": 1.5, "String": "a", "Bool": True, "Date": dt.date(2000, 1, 2), "Datetime": dt.datetime(2000, 1, 2, 3, 4, 5)}
    md = sqa.MetaData()
    st = sqa.Table("t0", md, sqa.Column("i", sqa.BigInteger), sqa.Column("f", sqa.Double), sqa.Column("s", sqa.String),
                   sqa.Column("b", sqa.Boolean), sqa.Column("d", sqa.Date), sqa.Column("t", sqa.DateTime))
    tables = {"polars": pdt.Table(pl.DataFrame({"i": [1, 2], "f": [1.5, 2.5], "s": ["a", "b"], "b": [True, False],
                                                "d": [dt.date(2000, 1, 1)] * 2, "t": [dt.datetime(2000, 1, 1)] * 2}), name="t0")}
    for d in DIALECTS:
        tables[d] = pdt.Table(st, pdt.SqlAlchemy(_env.offline_engine(d)))
    results, failures, n = [], [], 0

    def concretize(t, tv):
        if isinstance(types.without_const(t), types.Tyvar):
            return types.with_const(tv) if types.is_const(t) else tv
        b = types.without_const(t)
        if type(b) is pc.Int:
            b = pc.Int64()
        elif type(b) is pc.Float:
            b = pc.Float64()
        return types.with_const(b) if types.is_const(t) else b

    for name, op in all_ops():
        if isinstance(op, Marker):
            continue
        for sig in op.signatures:
            tyvars = [base[k] for k in ("Int", "String", "Date")] if any(
                isinstance(types.without_const(t), types.Tyvar) for t in sig.types) else [None]
            for tv in tyvars:
                tys = [concretize(t, tv) for t in sig.types]
                if sig.is_vararg:
                    tys = tys + [tys[-1]]
                if any(repr(types.without_const(t)) not in colname for t in tys):
                    continue  # Time / Duration / List / Decimal columns: no storage in the offline tables
                for bk, tbl in tables.items():
                    n += 1
                    args = []
                    for t in tys:
                        key = repr(types.without_const(t))
                        args.append(LiteralCol(sample[key]) if types.is_const(t) else tbl[colname[key]])
                    ctx = {}
                    if op.ftype == Ftype.WINDOW and any(c.name == "arrange" for c in op.context_kwargs):
                        ctx["arrange"] = [tbl.i]
                    try:
                        e = ColFn(op, *args, **ctx)
                        if op.ftype == Ftype.AGGREGATE and bk != "polars" and False:
                            pass
                        q = tbl >> (pdt.summarize(r=e) if op.ftype == Ftype.AGGREGATE else pdt.mutate(r=e))
                        if bk == "polars":
                            q >> pdt.export(pdt.Polars(lazy=True))
                            status = "compiled"
                        else:
                            sql = q >> pdt.build_query()
                            msg = one_select(sql)
                            status = "compiled" if msg is None else "bad-sql:" + msg
                    except NotSupportedError:
                        status = "not-supported"
                    except BaseException as ex:  # noqa: BLE001
                        reraise_control(ex)
                        status = f"error:{type(ex).__name__}: {str(ex)[:120]}"
                    results.append((name, [repr(t) for t in tys], bk, status))
                    if status.startswith(("error", "bad-sql")):
                        failures.append((name, [repr(t) for t in tys], bk, status))
    return n, results, failures


def _cast_key(cell, status):
    return f"{cell[3]}:{'strict' if cell[2] else 'lenient'}:{':'.join(status.split(':')[:2])}"


def cast_table():
    """Every cast the type checker accepts (source kind x source type x target type x strict flag) x backend:
    compiles, or NotSupportedError."""
    import datetime as dt

    import polars as pl
    import sqlalchemy as sqa

    import pydiverse.transform as pdt
    from pydiverse.transform._internal.errors import DataTypeError, NotSupportedError

    from .. import env as _env

    md = sqa.MetaData()
    st = sqa.Table("t0", md, sqa.Column("i", sqa.BigInteger), sqa.Column("f", sqa.Double), sqa.Column("s", sqa.String),
                   sqa.Column("b", sqa.Boolean), sqa.Column("d", sqa.Date), sqa.Column("t", sqa.DateTime),
                   sqa.Column("i16", sqa.SmallInteger), sqa.Column("i32", sqa.Integer), sqa.Column("f32", sqa.REAL))
    tables = {"polars": pdt.Table(pl.DataFrame(
        {"i": [1, 2], "f": [1.5, 2.5], "s": ["a", "b"], "b": [True, False], "d": [dt.date(2000, 1, 1)] * 2,
         "t": [dt.datetime(2000, 1, 1)] * 2, "i16": [1, 2], "i32": [1, 2], "f32": [1.5, 2.5]},
        schema_overrides={"i16": pl.Int16, "i32": pl.Int32, "f32": pl.Float32}), name="t0")}
    for d in DIALECTS:
        tables[d] = pdt.Table(st, pdt.SqlAlchemy(_env.offline_engine(d)))
    sized = ["Int8", "Int16", "Int32", "Int64", "UInt8", "UInt16", "UInt32", "UInt64", "Float32", "Float64"]
    targets = ["Int", "Float"] + sized + ["String", "Bool", "Date", "Datetime"]
    lits = {"lit_int": 300, "lit_float": 1.5, "lit_str": "12", "lit_bool": True, "lit_date": dt.date(2000, 1, 2),
            "lit_datetime": dt.datetime(2000, 1, 2, 3, 4, 5), "lit_null": None}
    sources = [("col:" + c, lambda t, c=c: t[c]) for c in ("i", "f", "s", "b", "d", "t", "i16", "i32", "f32")]
    sources += [("col:i->" + z, lambda t, z=z: t.i.cast(getattr(pdt, z)())) for z in sized]
    sources += [(k, lambda t, v=v: pdt.lit(v)) for k, v in lits.items()]
    sources += [("constcol:" + k, lambda t, k=k: ("constcol", k)) for k in ("lit_int", "lit_float", "lit_str")]
    results, failures, n = [], [], 0
    for sname, mk in sources:
        for tgt in targets:
            for strict in (True, False):
                for bk, tbl in tables.items():
                    n += 1
                    cell = [sname, tgt, strict, bk]
                    try:
                        src = mk(tbl)
                        base = tbl
                        if isinstance(src, tuple):
                            base = tbl >> pdt.mutate(zc=lits[src[1]])
                            src = base.zc
                        try:
                            e = src.cast(getattr(pdt, tgt)(), strict=strict)
                            e.dtype()
                        except (DataTypeError, TypeError):
                            results.append((cell, "not-accepted"))
                            continue
                        q = base >> pdt.mutate(r=e)
                        if bk == "polars":
                            q >> pdt.export(pdt.Polars(lazy=True))
                            status = "compiled"
                        else:
                            sql = q >> pdt.build_query()
                            msg = one_select(sql)
                            status = "compiled" if msg is None else "bad-sql:" + msg
                    except NotSupportedError:
                        status = "not-supported"
                    except BaseException as ex:  # noqa: BLE001
                        reraise_control(ex)
                        status = f"error:{type(ex).__name__}: {str(ex)[:120]}"
                    results.append((cell, status))
                    if status.startswith(("error", "bad-sql")):
                        failures.append((cell, status))
    return n, results, failures


class C19(Check):
    ID = "C19"
    RULE = ("(a) Hypothesis pipeline strategy (all verbs; SubqueryError answered with alias()) bound to offline engines for "
            "SQLite, PostgreSQL and SQL Server: build_query must return a str that lexes as exactly one SELECT statement "
            "(no comment or separator token outside literals, balanced parentheses) or raise NotSupportedError / "
            "SubqueryError, return the same text when called again (modulo the numbering of SQLAlchemy's id()-based anonymous aliases), and never raise anything else; (b) complete table: "
            "every operator x every declared signature (type variables instantiated with Int64, String, Date) x {Polars, "
            "SQLite, PostgreSQL, MSSQL}: the minimal expression op(col, ..., literal for const parameters) inside mutate / "
            "summarize compiles (lazy plan resp. SQL text) or raises NotSupportedError; (c) complete table: every cast accepted by the "
            "type checker - source {column of each stored type, column cast to each sized type, literal of each type, constant "
            "column} x target {Int, Float, sized ints and floats, String, Bool, Date, Datetime} x strict in {True, False} x the "
            "same four backends - compiles or raises NotSupportedError. DuckDB and DB2 are not importable "
            "offline. non-trivial = pipeline contains a join, union, window function, case, cast or slice_head")
    ASSUMPTIONS = ["duckdb / ibm_db drivers are absent: DuckDbImpl and IbmDb2Impl are not exercised",
                   "PostgreSQL and MSSQL statements are compiled with driver-less dialects and never executed"]
    N = {"quick": 2500, "thorough": 60000}

    def cfg(self, tier):
        deep = tier == "thorough"
        return pipegen.PCfg(max_len=9 if deep else 6, min_len=2, expr=Cfg(max_depth=3, math=True), sub_len=2)

    def strategy(self, tier):
        from hypothesis import strategies as st

        base = pipegen.pipeline_case(self.cfg(tier))

        @st.composite
        def with_tail(draw):
            case = draw(base)
            if draw(st.integers(0, 9)) >= 3:
                return case
            # compilation does not depend on the value domain: a final slice_head without an order that binds it
            # (MSSQL has to invent one for OFFSET), possibly behind a constant first column or an arrange by a constant
            try:
                t = refsem.run(case).vars[case["result"]]
            except (refsem.OutOfDomain, refsem.RefReject):
                return case
            if t.group or not t.visible:
                return case
            var, k = case["result"], 0

            def add(step):
                nonlocal var, k
                k += 1
                step = dict(step, out=f"{case['result']}_t{k}", **{"in": var})
                case["steps"].append(step)
                var = step["out"]

            shape = draw(st.sampled_from(["plain", "const_first", "arrange_const"]))
            if shape != "plain":
                add({"verb": "mutate", "items": [["zk", ["lit", draw(st.sampled_from([1, "c", 2.5, True]))]]]})
                if shape == "const_first":
                    add({"verb": "select", "cols": [{"c": "zk"}] + [{"c": n} for n in t.names() if n != "zk"]})
                else:
                    add({"verb": "arrange", "keys": [[["col", {"c": "zk"}], draw(st.booleans()), None, 0]]})
            add({"verb": "slice_head", "n": draw(st.integers(0, 5)), "offset": draw(st.integers(0, 3))})
            case["result"] = var
            case.setdefault("_gen", {}).setdefault("classes", []).append("tail:" + shape)
            return case

        return with_tail()

    def examine(self, case) -> Outcome:
        import pydiverse.transform as pdt

        out = Outcome()
        if "op_cell" in case:
            n, results, failures = operator_table()
            for name, tys, bk, status in failures:
                if [name, tys, bk] == case["op_cell"]:
                    out.fail("operator-table", f"{bk}:{name}", f"{bk}: {name}{tys}: {status}")
            return out
        if "cast_cell" in case:
            n, results, failures = cast_table()
            for cell, status in failures:
                if cell == case["cast_cell"]:
                    out.fail("cast-table", _cast_key(cell, status), f"{cell}: {status}")
            return out
        classify_case(case, out)
        try:
            refsem.run(case)
        except refsem.OutOfDomain:
            pass  # compilation does not depend on the value domain
        except refsem.RefReject as ex:
            out.discard = f"ref-reject:{ex.kind}"
            return out
        for d in DIALECTS:
            b = build.build(case, d, auto_alias=True)
            try:
                if b.error is not None:
                    k, ex = b.error
                    if is_refusal(ex):
                        out.count(f"refused:{d}:{exc_name(ex)}")
                    else:
                        out.fail("internal-error", f"{d}:{b.steps[k]['verb']}:{exc_name(ex)}:{innermost_repo_frame(ex)}",
                                 f"{d}: verb `{b.steps[k]['verb']}` raised {exc_name(ex)}: {str(ex)[:300]}")
                    continue
                tbl = b.vars[case["result"]]
                try:
                    q1 = tbl >> pdt.build_query()
                    q2 = tbl >> pdt.build_query()
                except BaseException as ex:  # noqa: BLE001
                    reraise_control(ex)
                    if is_refusal(ex):
                        out.count(f"refused_at_build:{d}:{exc_name(ex)}")
                        continue
                    out.fail("internal-error", f"{d}:build_query:{exc_name(ex)}:{innermost_repo_frame(ex)}",
                             f"{d}: build_query raised {exc_name(ex)}: {str(ex)[:300]}")
                    continue
                out.count(f"compiled:{d}")
                if not isinstance(q1, str):
                    out.fail("not-a-string", f"{d}", f"{d}: build_query returned {type(q1).__name__}")
                    continue
                if canon_anon(q1) != canon_anon(q2):
                    i = next((k for k in range(min(len(q1), len(q2))) if q1[k] != q2[k]), 0)
                    out.fail("nondeterministic", f"{d}:build_query",
                             f"{d}: two build_query calls differ at offset {i}: ...{q1[max(0, i - 150):i + 150]!r} vs ...{q2[max(0, i - 150):i + 150]!r}")
                msg = one_select(q1)
                if msg:
                    out.fail("bad-sql", f"{d}:{msg}", f"{d}: {msg}: {q1[:400]}")
            finally:
                b.backend.close()
        verbs = {s["verb"] for s in case["steps"]}
        from ..ir import step_exprs, walk_expr, WIN_OPS

        exprs = [nd for s in case["steps"] for e in step_exprs(s) for nd in walk_expr(e)]
        out.nontrivial = out.discard is None and (bool(verbs & {"join", "union", "slice_head"}) or any(
            nd[0] in ("case", "cast") or (nd[0] == "fn" and nd[1] in WIN_OPS) for nd in exprs))
        return out

    def extra_parts(self, tier, base_seed, stats):
        n, results, failures = operator_table()
        stats.evaluations += n
        for name, tys, bk, status in failures:
            stats.failures.append((f"operator-table|{bk}:{name}", {"op_cell": [name, tys, bk]},
                                   {"kind": "operator-table", "key": f"{bk}:{name}", "message": f"{bk}: {name}{tys}: {status}", "extra": {}}))
        from collections import Counter

        n2, results2, failures2 = cast_table()
        stats.evaluations += n2
        seen = set()
        for cell, status in failures2:
            key = _cast_key(cell, status)
            if key in seen:
                continue  # one record per backend and kind of error; the first failing cell is the replay case
            seen.add(key)
            stats.failures.append((f"cast-table|{key}", {"cast_cell": cell},
                                   {"kind": "cast-table", "key": key, "message": f"{cell}: {status}", "extra": {}}))
        c2 = Counter((cell[3], status.split(":")[0]) for cell, status in results2)
        c = Counter((bk, status.split(":")[0]) for _, _, bk, status in results)
        return {"cast_table": {"cells": n2, "exhaustive": True, "by_backend_status": {f"{k[0]}:{k[1]}": v for k, v in sorted(c2.items())}},
                "operator_table": {"cells": n, "exhaustive": True, "by_backend_status": {f"{k[0]}:{k[1]}": v for k, v in sorted(c.items())},
                                   "not_supported": sorted({f"{bk}:{name}" for name, _, bk, status in results if status == "not-supported"})}}


CHECK = C19()
