"""C13 — overload resolution is total, deterministic and uniform (DESIGN §6 C13).

Complete enumeration: every Operator x every argument-type tuple over a 50-element universe
(arity 0-2 completely, arity 3 completely for 3-ary operators, arity 4 / varargs over a reduced
universe)."""
from __future__ import annotations

import hashlib
import itertools
import json
import multiprocessing as mp
import os
import subprocess
import sys
import time
import uuid

from .. import env as _env
from .. import runner
from . import Check


def universe():
    import pydiverse.common as pc
    from pydiverse.transform._internal.tree import types

    base = [pc.Int(), pc.Int8(), pc.Int16(), pc.Int32(), pc.Int64(), pc.UInt8(), pc.UInt16(), pc.UInt32(), pc.UInt64(),
            pc.Float(), pc.Float32(), pc.Float64(), pc.Decimal(), pc.Decimal(10, 2), pc.String(), pc.String(10),
            pc.Enum("a", "b"), pc.Bool(), pc.Date(), pc.Datetime(), pc.Time(), pc.Duration(), pc.NullType(),
            pc.List(pc.Int64()), pc.List(pc.String())]
    return base + [types.Const(t) for t in base]


def reduced_universe():
    import pydiverse.common as pc
    from pydiverse.transform._internal.tree import types

    base = [pc.Int64(), pc.Float64(), pc.Decimal(10, 2), pc.String(), pc.Bool(), pc.Date(), pc.Datetime(), pc.NullType(),
            pc.Int(), pc.List(pc.Int64())]
    return base + [types.Const(t) for t in base]


def all_ops():
    from pydiverse.transform._internal.ops import ops
    from pydiverse.transform._internal.ops.op import Operator

    seen, res = set(), []
    for k, v in sorted(vars(ops).items()):
        if isinstance(v, Operator) and id(v) not in seen:
            seen.add(id(v))
            res.append((k, v))
    return res


def fam(t):
    from pydiverse.transform._internal.tree import types

    if t is None:
        return None
    t = types.without_const(t)
    import pydiverse.common as pc

    if isinstance(t, pc.Decimal):
        return "decimal"
    if t.is_int():
        return "int"
    if t.is_float():
        return "float"
    if isinstance(t, pc.List):
        return "list:" + str(fam(t.inner))
    if isinstance(t, (pc.String, pc.Enum)):
        return "str"
    return type(t).__name__


def call(op, tup):
    """-> ('ok', dtype) | ('none',) | ('exc', name, msg)"""
    try:
        r = op.return_type(list(tup))
    except Exception as ex:  # noqa: BLE001
        return ("exc", type(ex).__name__, str(ex)[:120])
    if r is None:
        return ("none",)
    return ("ok", r)


def arities(op):
    ar = set()
    for s in op.signatures:
        n = len(s.types)
        ar.add(n)
        if s.is_vararg:
            ar |= {n + 1, n + 2}
        if n > 0:
            ar.add(n - 1)
        ar.add(n + 1)
    return sorted(a for a in ar if a <= 4)


def clone_reversed(op, order="reversed"):
    from pydiverse.transform._internal.ops.op import Operator

    sigs = list(op.signatures)
    if order == "reversed":
        sigs = sigs[::-1]
    else:  # rotate
        sigs = sigs[1:] + sigs[:1]
    return Operator(op.name, *sigs, ftype=op.ftype, context_kwargs=op.context_kwargs, param_names=list(op.param_names),
                    default_values=op.default_values, generate_expr_method=op.generate_expr_method, doc=op.doc)


def enumerate_op(args):
    """Worker: all checks for one operator.  Returns dict with counters, failures, digest."""
    name, tier = args
    _env.quiet()
    import pydiverse.common as pc
    from pydiverse.transform._internal.tree import types

    ops = dict(all_ops())
    op = ops[name]
    U, R = universe(), reduced_universe()
    rev, rot = clone_reversed(op), clone_reversed(op, "rotate")
    sized = {"int": [t for t in U if not types.is_const(t) and t.is_int() and type(t) is not pc.Int],
             "float": [pc.Float32(), pc.Float64()], "decimal": [pc.Decimal(10, 2)]}
    generic = {"int": pc.Int(), "float": pc.Float(), "decimal": pc.Decimal()}
    res = {"op": name, "calls": 0, "accepted": 0, "nontrivial": 0, "failures": [], "samples": []}
    h = hashlib.sha256()
    table = {}

    def fail(kind, tup, msg):
        if len(res["failures"]) < 40:
            res["failures"].append({"kind": kind, "op": name, "args": [repr(t) for t in tup], "message": msg})

    for ar in arities(op):
        if tier == "digest" and ar > 2:
            continue
        space = U if ar <= 2 or (ar == 3 and tier == "thorough") else R
        if ar == 4 and tier == "quick":
            space = R[:6] + R[10:16]
        for tup in itertools.product(space, repeat=ar):
            r = call(op, tup)
            res["calls"] += 1
            table[tup] = r
            h.update(repr((tup, r[0], repr(r[1]) if r[0] == "ok" else r[1:])).encode())
            if r[0] == "exc":
                fail("internal-error", tup, f"{r[1]}: {r[2]}")
                continue
            nt = r[0] == "ok" or any(types.is_const(t) or isinstance(types.without_const(t), pc.NullType) for t in tup)
            if nt:
                res["nontrivial"] += 1
            if r[0] == "ok":
                res["accepted"] += 1
                if len(res["samples"]) < 3:
                    res["samples"].append({"op": name, "args": [repr(t) for t in tup], "returns": repr(r[1])})
            if tier == "digest":
                continue
            # (b) determinism under declaration order
            for other, label in ((rev, "reversed"), (rot, "rotated")):
                r2 = call(other, tup)
                res["calls"] += 1
                if r2[0] != r[0] or (r[0] == "ok" and repr(r2[1]) != repr(r[1])):
                    fail("order-dependence", tup, f"declared order -> {r}, {label} order -> {r2}")
    res["digest"] = h.hexdigest()
    if tier == "digest":
        return res
    # (c) uniformity and (d) const, over the table
    for tup, r in table.items():
        if r[0] != "ok":
            continue
        for i, t in enumerate(tup):
            base = types.without_const(t)
            for f, g in generic.items():
                if base == g and type(base) is type(g):
                    for s in sized[f]:
                        t2 = types.Const(s) if types.is_const(t) else s
                        tup2 = tup[:i] + (t2,) + tup[i + 1:]
                        r2 = table.get(tup2) or call(op, tup2)
                        res["calls"] += 1
                        if r2[0] != "ok":
                            fail("uniformity", tup2, f"{tup} accepted -> {r[1]!r} but sized member rejected: {r2}")
                        elif fam(r2[1]) != fam(r[1]) and not (fam(r[1]) in ("int", "float", "decimal") and fam(r2[1]) in ("int", "float", "decimal")
                                                               and fam(r[1]) == f):
                            fail("uniformity", tup2, f"result family {fam(r[1])} became {fam(r2[1])}")
                        elif fam(r[1]) != fam(r2[1]) and fam(r2[1]) != f:
                            fail("uniformity", tup2, f"result family {fam(r[1])} became {fam(r2[1])}")
            if not types.is_const(t):
                tup2 = tup[:i] + (types.Const(t),) + tup[i + 1:]
                r2 = table.get(tup2) or call(op, tup2)
                res["calls"] += 1
                if r2[0] != "ok":
                    fail("const", tup2, f"{tup} accepted but const argument at {i} rejected: {r2}")
                elif repr(types.without_const(r2[1])) != repr(types.without_const(r[1])):
                    fail("const", tup2, f"const argument changed the result type {r[1]!r} -> {r2[1]!r}")
    # parameters declared const in every overload reject column arguments
    n_sig = {len(s.types) for s in op.signatures}
    for ar in n_sig:
        sigs = [s for s in op.signatures if len(s.types) == ar]
        for i in range(ar):
            if all(types.is_const(s.types[i]) for s in sigs) and not any(s.is_vararg for s in op.signatures):
                for tup, r in table.items():
                    if len(tup) == ar and r[0] == "ok" and not types.is_const(tup[i]):
                        fail("const-param", tup, f"parameter {i} is declared const in every overload but a column argument was accepted")
    # (e) declared signatures
    for s in op.signatures:
        insts = [s.types]
        if any(isinstance(types.without_const(t), types.Tyvar) for t in s.types):
            insts = []
            for b in (pc.Int64(), pc.Float64(), pc.String(), pc.Bool(), pc.Date(), pc.Datetime()):
                insts.append([types.Const(b) if types.is_const(t) and isinstance(types.without_const(t), types.Tyvar)
                              else (b if isinstance(t, types.Tyvar) else t) for t in s.types])
        for inst in insts:
            r = call(op, tuple(inst))
            res["calls"] += 1
            if r[0] != "ok":
                fail("declared-signature", tuple(inst), f"declared signature rejected: {r}")
                continue
            want = s.return_type
            if isinstance(want, types.Tyvar) or (isinstance(want, pc.List) and isinstance(want.inner, types.Tyvar)):
                continue
            if repr(types.without_const(r[1])) != repr(want):
                fail("declared-signature", tuple(inst), f"declared return type {want!r}, got {r[1]!r}")
    res["digest"] = h.hexdigest()
    # ColFn level (arity <= 2): DataTypeError iff no overload
    from pydiverse.transform._internal.errors import DataTypeError
    from pydiverse.transform._internal.ops.op import Ftype
    from pydiverse.transform._internal.ops.ops.markers import Marker
    from pydiverse.transform._internal.tree.col_expr import Col, ColFn

    if not isinstance(op, Marker):
        for tup, r in table.items():
            if len(tup) > 2 or len(tup) == 0:
                continue
            cols = [Col(f"c{i}", None, uuid.uuid1(), t, Ftype.ELEMENT_WISE) for i, t in enumerate(tup)]
            res["calls"] += 1
            try:
                e = ColFn(op, *cols)
                got = ("ok", e.dtype())
            except DataTypeError:
                got = ("none",)
            except Exception as ex:  # noqa: BLE001
                got = ("exc", type(ex).__name__, str(ex)[:100])
            if got[0] == "exc":
                if r[0] != "exc":
                    fail("internal-error", tup, f"ColFn construction raised {got[1]}: {got[2]}")
            elif got[0] != r[0]:
                fail("colfn-disagrees", tup, f"return_type -> {r}, ColFn -> {got}")
    return res


class C13(Check):
    ID = "C13"
    RULE = ("complete enumeration: every Operator in ops x every argument-type tuple over the universe {Int, Int8..Int64, "
            "UInt8..UInt64, Float, Float32, Float64, Decimal, Decimal(10,2), String, String(10), Enum, Bool, Date, Datetime, "
            "Time, Duration, NullType, List(Int64), List(String)} x {plain, const} (50 types): arities 0-2 completely, "
            "arity 3 completely in the thorough tier (20 representative types in quick), arity 4 / varargs over 20 (quick: 12) "
            "representative types; each tuple is also resolved by clones of the operator with reversed and rotated "
            "declaration order, related tuples (generic -> sized member, plain -> const) are compared, declared signatures "
            "are called with their own types, ColFn construction is compared with Operator.return_type, and the arity<=2 "
            "result digest is recomputed under three PYTHONHASHSEED values. non-trivial = tuple accepted or containing a "
            "const / NullType argument; every tuple is distinct by construction")
    N = {"quick": 0, "thorough": 0}
    ASSUMPTIONS = ["the type universe is the one listed in 'rule'; parametrised types (String(n), Decimal(p,s), Enum, List) are "
                   "represented by one or two instances each"]

    def examine(self, case):
        out = runner.Outcome()
        r = enumerate_op((case["op"], "quick"))
        for f in r["failures"]:
            if case.get("args") is None or f["args"] == case["args"]:
                out.fail(f["kind"], f"{f['op']}:{f['kind']}", f["message"], args=f["args"])
        return out

    def main(self, tier, base_seed, replay_path=None):
        t0 = time.time()
        _env.quiet()
        _env.assert_tree()
        if replay_path:
            return self.replay_file(replay_path)
        replay_results, regressions = self.replay_tier()
        names = [n for n, _ in all_ops()]
        ctx = mp.get_context("spawn")
        with ctx.Pool(min(16, os.cpu_count() or 1)) as pool:
            results = pool.map(enumerate_op, [(n, tier) for n in names], chunksize=1)
        stats = runner.ShardStats()
        digest = hashlib.sha256()
        for r in sorted(results, key=lambda r: r["op"]):
            stats.evaluations += r["calls"]
            digest.update(r["digest"].encode())
            for k in range(r["nontrivial"]):
                pass
            stats.counters["accepted"] = stats.counters.get("accepted", 0) + r["accepted"]
            stats.counters["nontrivial"] = stats.counters.get("nontrivial", 0) + r["nontrivial"]
            for s in r["samples"][:1]:
                if len(stats.samples) < 8:
                    stats.samples.append(s)
            for f in r["failures"]:
                case = {"op": f["op"], "args": f["args"]}
                stats.failures.append((f"{f['kind']}|{f['op']}:{f['kind']}", case,
                                       {"kind": f["kind"], "key": f"{f['op']}:{f['kind']}", "message": f["message"], "extra": {}}))
        # determinism under hash randomisation
        digests = {}
        code = ("import sys; sys.path.insert(0, %r); from pdtverif.checks import c13; import hashlib; "
                "h = hashlib.sha256(); "
                "[h.update(c13.enumerate_op((n, 'digest'))['digest'].encode()) for n, _ in c13.all_ops()]; print(h.hexdigest())"
                % _env.VERIF)
        procs = []
        for hs in ("1", "7", "12345"):
            e = dict(os.environ, PYTHONHASHSEED=hs)
            procs.append((hs, subprocess.Popen([sys.executable, "-c", code], stdout=subprocess.PIPE, stderr=subprocess.PIPE, text=True, env=e)))
        for hs, p in procs:
            o, err = p.communicate()
            digests[hs] = o.strip().splitlines()[-1] if o.strip() else "ERR:" + err[-200:]
        if len(set(digests.values())) != 1 or any(v.startswith("ERR") for v in digests.values()):
            stats.failures.append(("hash-dependence|digest", {"op": "*", "args": None},
                                   {"kind": "hash-dependence", "key": "digest", "message": f"digests differ: {digests}", "extra": {}}))
        stats.nontrivial_hashes = set(range(stats.counters.get("nontrivial", 0)))
        extra = {"exhaustive": True, "operators": len(names), "hashseed_digests": digests,
                 "calls_including_related_tuples": stats.evaluations}
        for kf, path, f in regressions:
            stats.failures.append((f.sig(), json.load(open(path)).get("case", {}), f.to_json()))
        return runner.finish(self, tier, base_seed, stats, t0, replay_results=replay_results, extra_cov=extra)

    def replay_file(self, path):
        with open(path) as f:
            w = json.load(f)
        case = w["case"]
        out = self.examine(case)
        for f in out.failures:
            print(f"FAILURE {f.sig()}: {f.message}")
        if out.failures:
            print(f"VIOLATION property={self.ID} replay={path}")
            return 1
        print("replay passes")
        return 0


CHECK = C13()
