"""C10 — tables and expressions are immutable values (DESIGN §6 C10)."""
from __future__ import annotations

import copy

from hypothesis import strategies as st

from .. import build, data, oracle, pipegen, refsem
from ..exprgen import Cfg, ExprGen, Scope
from ..ir import AGG_OPS, WIN_OPS, has_op
from ..pipeline_oracle import engine_quirk, exc_name, is_refusal, reraise_control
from ..runner import Outcome
from . import Check


PREFIXES = {}  # case prefixes of the case being expanded (set by expand_case_prefixes)


def expand_shared(obj, shared, prefixes=None):
    if isinstance(obj, list):
        if len(obj) == 2 and obj[0] == "shared":
            return copy.deepcopy(shared[obj[1]])
        if len(obj) == 4 and obj[0] == "caseprefix" and prefixes is not None:
            # when(c1).then(v1) built once; every use continues the chain with its own branches
            return ["case", copy.deepcopy(prefixes[obj[1]]) + copy.deepcopy(obj[2]), copy.deepcopy(obj[3])]
        return [expand_shared(x, shared, prefixes) for x in obj]
    if isinstance(obj, dict):
        return {k: expand_shared(v, shared, prefixes) for k, v in obj.items()}
    return obj


HISTORY_W = {"select": 5, "drop": 2, "rename": 4, "mutate": 12, "filter": 9, "arrange": 6, "slice_head": 9, "group_by": 4,
             "ungroup": 2, "summarize": 5, "join": 5, "union": 3, "alias": 10, "collect": 0}


@st.composite
def c10_case(draw, tier):
    deep = tier == "thorough"
    if draw(st.integers(0, 9)) < 4:
        # verb histories: every intermediate table stays alive in a variable and must not change when later verbs
        # (in particular those that make the SQL side rebuild the tree below an alias()) are applied to it
        cfg = pipegen.PCfg(weights=HISTORY_W, max_len=10 if deep else 7, min_len=3, expr=Cfg(max_depth=2), sub_len=2,
                           win_direct=3, max_tables=2)
        case = draw(pipegen.pipeline_case(cfg))
        case["mode"] = "history"
        case["shared"], case["kinds"], case["results"] = [], [], [case["result"]]
        return case
    cfg = pipegen.PCfg(max_tables=1, expr=Cfg(max_depth=2), agg_in_mutate=True, win_in_mutate=True)
    g = pipegen.PipeGen(draw, cfg)
    v0 = g.source()
    t0 = g.t(v0)
    # shared expression objects over the source table (captured references only)
    sc = Scope(g.env, t0, captures=True, c_refs=draw(st.booleans()))
    eg = ExprGen(draw, sc, cfg.expr)
    shared, kinds = [], []
    for _ in range(draw(st.integers(1, 3))):
        fam = draw(st.sampled_from(["int", "float", "bool", "int"]))
        kind = "agg" if not shared else draw(st.sampled_from(["agg", "agg", "win", "elem"]))
        e = eg.aggregate(fam, 1) if kind == "agg" else (eg.window(fam, 1) if kind == "win" else eg.gen(fam, 2))
        if e is None:
            e, kind = eg.gen(fam, 1), "elem"
        from ..ir import walk_expr

        if not any(nd[0] == "col" for nd in walk_expr(e)):
            lf = eg.leaf(fam)
            if lf[0] != "col":
                lf = ["fn", "is_not_null", [["col", {"v": v0, "n": "id"}]], {}] if fam == "bool" else ["col", {"v": v0, "n": "id"}]
            e, kind = lf, "elem"
        shared.append(e)
        kinds.append(kind)
    case = g.case
    case["shared"] = shared
    plain_emit = g.emit

    def emit_shared(step):
        # the reference sees the expanded expressions, the case keeps the ["shared", k] form
        o = plain_emit(expand_shared(step, shared, case.get("prefixes")))
        if o is not None:
            case["steps"][-1] = step
        return o

    g.emit = emit_shared
    results = []
    nb = draw(st.integers(2, 4 if deep else 3))
    gcols = [(n, c) for n, c in t0.visible if n != "id"]
    for b in range(nb):
        var = v0
        nsteps = draw(st.integers(2, 4))
        for _ in range(nsteps):
            t = g.t(var)
            choice = draw(st.sampled_from(["group", "group", "group", "mutate", "mutate", "mutate", "summarize", "filter", "arrange",
                                           "ungroup", "select"]))
            k = 0 if draw(st.booleans()) else draw(st.integers(0, len(shared) - 1))
            in_scope = True
            try:
                refsem.Evaluator(g.env, t, "mutate").rows(shared[k])
            except (refsem.RefReject, refsem.OutOfDomain):
                in_scope = False
            if choice == "group" and gcols and not t.agg_cols:
                n, c = draw(st.sampled_from(gcols))
                if c in {cc for _, cc in t.visible} and c not in t.const_cols and c not in t.group:
                    v2 = g.emit({"out": g.new_var(), "verb": "group_by", "in": var, "cols": [{"v": v0, "n": n}], "add": bool(t.group)})
                    var = v2 or var
            elif choice == "ungroup" and t.group:
                var = g.emit({"out": g.new_var(), "verb": "ungroup", "in": var}) or var
            elif choice == "mutate" and in_scope:
                name = draw(st.sampled_from(["p", "q", "a_r", "b_r"]))
                v2 = g.emit({"out": g.new_var(), "verb": "mutate", "in": var, "items": [[name, ["shared", k]]]})
                var = v2 or var
            elif choice == "summarize" and in_scope and kinds[k] == "agg":
                v2 = g.emit({"out": g.new_var(), "verb": "summarize", "in": var, "items": [["s", ["shared", k]]]})
                if v2 is not None:
                    var = v2
                    break
            elif choice == "filter" and in_scope and kinds[k] == "elem" and refsem.result_fam_of(g.env, t, shared[k]) == "bool":
                var = g.emit({"out": g.new_var(), "verb": "filter", "in": var, "preds": [["shared", k]]}) or var
            elif choice == "arrange" and in_scope and kinds[k] == "elem":
                var = g.emit({"out": g.new_var(), "verb": "arrange", "in": var, "keys": [[["shared", k], False, "last", 0]]}) or var
            elif choice == "select":
                var = g.v_select(var) or var
        results.append(var)
    if draw(st.integers(0, 2)) == 0:
        # a case-expression prefix object `p = when(c).then(v)` continued in different ways: p.when(..).then(..) must
        # not change p
        ints = [n for n, c in t0.visible if t0.fam[c] == "int"]
        if ints:
            col = lambda n: ["col", {"v": v0, "n": n}]  # noqa: E731
            a = draw(st.sampled_from(ints))
            piv = draw(st.integers(-2, 3))
            case["prefixes"] = [[[["fn", "lt", [col(a), ["lit", piv]], {}], ["lit", -1]]]]
            tails = [[[["fn", "eq", [["fn", "mod", [col(a), ["lit", 2]], {}], ["lit", 0]], {}], ["lit", 2]]],
                     [[["fn", "gt", [col(a), ["lit", piv + 2]], {}], ["lit", 7]]],
                     []]
            var = v0
            order = draw(st.permutations([0, 1, 2]))
            for j, name in zip(order, ["cp1", "cp2", "cp3"]):
                dflt = ["lit", 0] if draw(st.booleans()) else None
                v2 = g.emit({"out": g.new_var(), "verb": "mutate", "in": var, "items": [[name, ["caseprefix", 0, tails[j], dflt]]]})
                var = v2 or var
            results.append(var)
            kinds.append("caseprefix")
    case["results"] = results
    case["result"] = results[-1]
    case["kinds"] = kinds
    return case


def fingerprint(obj, seen=None):
    """Structural fingerprint of a table / AST node / expression (memo fields excluded)."""
    from pydiverse.transform._internal.backend.table_impl import TableImpl
    from pydiverse.transform._internal.pipe.table import Table
    from pydiverse.transform._internal.tree import verbs
    from pydiverse.transform._internal.tree.col_expr import CaseExpr, Cast, Col, ColExpr, ColFn, ColName, LiteralCol, Order

    f = fingerprint
    if isinstance(obj, Table):
        c = obj._cache
        return ("Table", f(obj._ast), tuple(c.name_to_uuid.items()), tuple(c.partition_by), tuple(sorted(map(str, c.cols))),
                c.limit, tuple(sorted(map(str, c.group_by))), c.is_filtered)
    if isinstance(obj, TableImpl):
        return ("Source", type(obj).__name__, obj.name, tuple((n, str(c._uuid)) for n, c in obj.cols.items()))
    if isinstance(obj, verbs.Verb):
        fields = []
        for slot in ("names", "values", "uuids", "select", "name_map", "predicates", "order_by", "n", "offset", "group_by", "add",
                     "on", "how", "validate", "distinct", "uuid_map"):
            if hasattr(obj, slot):
                try:
                    fields.append((slot, f(getattr(obj, slot))))
                except AttributeError:
                    pass
        right = f(obj.right) if hasattr(obj, "right") else None
        return (type(obj).__name__, obj.name, f(obj.child), right, tuple(fields))
    if isinstance(obj, Order):
        return ("Order", f(obj.order_by), obj.descending, obj.nulls_last)
    if isinstance(obj, Col):
        return ("Col", obj.name, str(obj._uuid))
    if isinstance(obj, ColName):
        return ("ColName", obj.name)
    if isinstance(obj, LiteralCol):
        return ("Lit", repr(obj.val))
    if isinstance(obj, ColFn):
        return ("Fn", obj.op.name, tuple(f(a) for a in obj.args),
                tuple((k, tuple(f(v) for v in vs)) for k, vs in sorted(obj.context_kwargs.items())))
    if isinstance(obj, CaseExpr):
        return ("Case", tuple((f(c), f(v)) for c, v in obj.cases), f(obj.default_val))
    if isinstance(obj, Cast):
        return ("Cast", f(obj.val), repr(obj.target_type), obj.strict)
    if isinstance(obj, ColExpr):
        return (type(obj).__name__, tuple(f(c) for c in obj.iter_children()))
    if isinstance(obj, dict):
        return tuple((str(k), f(v)) for k, v in obj.items())
    if isinstance(obj, (list, tuple)):
        return tuple(f(x) for x in obj)
    return repr(obj)


class SharedBuilder(build.Builder):
    """Builds ["shared", k] once and reuses the same Python object."""

    def __init__(self, case, backend, shared_mode):
        super().__init__(case, backend)
        self.shared_mode = shared_mode
        self.cache = {}
        self.fp0 = {}

    def expr(self, e):
        if e[0] == "caseprefix":
            import pydiverse.transform as pdt

            k = e[1]
            if not self.shared_mode:
                return super().expr(expand_shared(e, self.case["shared"], self.case["prefixes"]))
            key = ("prefix", k)
            if key not in self.cache:
                w = None
                for c, v in self.case["prefixes"][k]:
                    w = (pdt.when(super().expr(c)) if w is None else w.when(super().expr(c))).then(super().expr(v))
                self.cache[key] = w
                self.fp0[key] = fingerprint(w)
            w = self.cache[key]
            for c, v in e[2]:
                w = w.when(super().expr(c)).then(super().expr(v))
            if e[3] is not None:
                w = w.otherwise(super().expr(e[3]))
            return w
        if e[0] == "shared":
            k = e[1]
            if self.shared_mode:
                if k not in self.cache:
                    self.cache[k] = super().expr(self.case["shared"][k])
                    # fingerprint at construction: the first verb that receives the object must not change it either
                    self.fp0[k] = fingerprint(self.cache[k])
                return self.cache[k]
            return super().expr(copy.deepcopy(self.case["shared"][k]))
        return super().expr(e)


class C10(Check):
    ID = "C10"
    RULE = ("Hypothesis composite strategy: one source table, 1-3 pooled expression objects (aggregate, window or element-wise, "
            "built once) and 2-4 branches that reuse them under different group_by states in mutate, summarize, filter and "
            "arrange. Oracle: (1) a structural fingerprint (AST fields, expression nodes incl. context kwargs, literal "
            "values, cast targets, Col uuid/name, metadata maps; memo fields excluded) of every table and pooled expression "
            "taken before and after every verb call, export, build_query, repr and ast_repr - a pre-existing object must not "
            "change; (2) every branch built with the pooled objects exports the same as the branch built with freshly "
            "constructed expressions and as the reference; (3) re-export and repeated build_query give identical results; "
            "the source frame / SQL table content is unchanged. 40% of the cases are general verb histories over 1-2 tables "
            "(alias, slice_head, window mutates, filter, join, union ... with alias() inserted where SQL asks for a "
            "subquery): every intermediate table stays alive and is fingerprinted before and after each later verb call, "
            "export, build_query and repr. Polars and SQLite. non-trivial = an aggregate/window expression object used "
            ">=2 times under >=2 different grouping states or verbs; or a history of >=5 steps with an alias()")
    N = {"quick": 1500, "thorough": 40000}

    def strategy(self, tier):
        return c10_case(tier)

    def examine(self, case) -> Outcome:
        import pydiverse.transform as pdt

        out = Outcome()
        steps = case["steps"]
        expanded = dict(case)
        expanded["steps"] = expand_shared(steps, case["shared"], case.get("prefixes"))
        try:
            ref = refsem.run(expanded)
        except refsem.OutOfDomain as ex:
            out.discard = f"out-of-domain:{str(ex)[:40]}"
            return out
        except refsem.RefReject as ex:
            out.discard = f"ref-reject:{ex.kind}"
            return out
        uses = {}
        for s in steps:
            txt = repr(s)
            for k in range(len(case["shared"])):
                if f"['shared', {k}]" in txt:
                    uses.setdefault(k, []).append((s["verb"], tuple(ref.vars[s["in"]].group)))
        out.nontrivial = any(case["kinds"][k] in ("agg", "win") and len(u) >= 2 and len(set(u)) >= 2 for k, u in uses.items())
        history = case.get("mode") == "history"
        if history:
            out.classes.append("mode:history")
            n_alias = sum(1 for s in steps if s["verb"] == "alias")
            out.nontrivial = n_alias >= 1 and len(steps) >= 5
        for kind in ("polars", "sqlite"):
            bk = build.Backend(kind)
            try:
                if history:
                    self._run_history(case, ref, kind, bk, out)
                else:
                    self._run_backend(case, expanded, ref, kind, bk, out)
            finally:
                bk.close()
        return out

    def _run_history(self, case, ref, kind, bk, out):
        import pydiverse.transform as pdt

        prints = {}

        def check_unchanged(after):
            for key, (obj, fp) in list(prints.items()):
                now = fingerprint(obj)
                if now != fp:
                    out.fail("mutated", f"{kind}:{after}:table", f"{kind}: {key} changed during `{after}`")
                    prints[key] = (obj, now)

        def on_step(s, b):
            check_unchanged(s["verb"])
            prints[f"table:{s['out']}"] = (b.vars[s["out"]], fingerprint(b.vars[s["out"]]))

        res = build.build(case, kind, auto_alias=True, backend=bk, on_step=on_step)
        if res.error is not None:
            k, ex = res.error
            if is_refusal(ex) or engine_quirk(ex, case, ref):
                out.count("refused")
            else:
                out.fail("internal-error", f"{kind}:{res.steps[k]['verb']}:{exc_name(ex)}",
                         f"{kind}: `{res.steps[k]['verb']}` raised {exc_name(ex)}: {str(ex)[:300]}")
        # exporting / compiling / printing any of the live tables changes none of them
        live = [v for v in res.vars if "~" not in v]
        for v in live[-4:]:
            try:
                build.export_polars(res.vars[v])
                check_unchanged("export")
                if kind == "sqlite":
                    res.vars[v] >> pdt.build_query()
                    check_unchanged("build_query")
                else:
                    repr(res.vars[v])
                    check_unchanged("repr")
            except BaseException as ex:  # noqa: BLE001
                reraise_control(ex)
                continue  # what a pipeline exports is decided by the other checks
        out.count(f"history_tables:{kind}", len(prints))

    def _run_backend(self, case, expanded, ref, kind, bk, out):
        import pydiverse.transform as pdt
        from pydiverse.transform.errors import SubqueryError

        sb = SharedBuilder(case, bk, True)
        fb = SharedBuilder(case, bk, False)
        prints = {}

        def check_unchanged(after):
            for key, (obj, fp) in list(prints.items()):
                now = fingerprint(obj)
                if now != fp:
                    out.fail("mutated", f"{kind}:{after}:{key.split(':')[0]}",
                             f"{kind}: {key} changed during `{after}`")
                    prints[key] = (obj, now)

        view = "polars" if kind == "polars" else "sql"
        for s in case["steps"]:
            try:
                sb.step(s)
                fb.step(s)
            except SubqueryError:
                out.count("sql_refused")
                return
            except BaseException as ex:  # noqa: BLE001
                reraise_control(ex)
                out.fail("internal-error", f"{kind}:{s['verb']}:{exc_name(ex)}", f"{kind}: `{s['verb']}` with a reused expression object raised "
                         f"{exc_name(ex)}: {str(ex)[:300]} (the same step is accepted by the reference)")
                return
            for k, obj in sb.cache.items():
                prints.setdefault(f"expr:{k}", (obj, sb.fp0[k]))
            check_unchanged(s["verb"])
            prints[f"table:{s['out']}"] = (sb.vars[s["out"]], fingerprint(sb.vars[s["out"]]))
        src_before = {t["name"]: build.export_polars(bk.source(t)) for t in case["tables"]}
        for rv in case["results"]:
            try:
                d1 = build.export_polars(sb.vars[rv])
                check_unchanged("export")
                d2 = build.export_polars(fb.vars[rv])
                d3 = build.export_polars(sb.vars[rv])
                if kind == "sqlite":
                    q1 = sb.vars[rv] >> pdt.build_query()
                    check_unchanged("build_query")
                    q2 = sb.vars[rv] >> pdt.build_query()
                    if q1 != q2:
                        out.fail("nondeterministic", f"{kind}:build_query", "two build_query() calls returned different text")
                else:
                    repr(sb.vars[rv])
                    check_unchanged("repr")
            except BaseException as ex:  # noqa: BLE001
                reraise_control(ex)
                if (kind == "sqlite" and is_refusal(ex)) or engine_quirk(ex, expanded, ref):
                    continue
                out.fail("internal-error", f"{kind}:export:{exc_name(ex)}", f"{kind}: export raised {exc_name(ex)}: {str(ex)[:300]}")
                continue
            t = ref.vars[rv]
            if kind == "sqlite" and ref.pl_only:
                continue
            try:
                oracle.compare_ref(t, d1, view=view)
                out.count(f"compared:{kind}")
            except oracle.Mismatch as mm:
                try:
                    oracle.compare_ref(t, d2, view=view)
                    out.fail("reuse-changes-result", f"{kind}:{mm.kind}", f"{kind}: result with reused expression objects differs from the "
                             f"reference, with fresh objects it agrees: {mm}")
                except oracle.Mismatch:
                    out.fail("mismatch", f"{kind}:{mm.kind}", f"{kind} vs reference at {rv}: {mm}")
            try:
                oracle.compare_frames(d1, d3, order="sequence" if (kind == "polars" and t.base_pl) else "multiset", tol=(0.0, 0.0))
            except oracle.Mismatch as mm:
                out.fail("re-export-differs", f"{kind}:{mm.kind}", f"{kind}: second export differs from the first: {mm}")
        for t in case["tables"]:
            after = build.export_polars(bk.source(t))
            if not after.equals(src_before[t["name"]]):
                out.fail("source-changed", f"{kind}:source", "the source table content changed")


CHECK = C10()
