"""C12 — static types predict the exported types (DESIGN §6 C12)."""
from __future__ import annotations

from .. import build, pipegen
from ..exprgen import Cfg
from ..ir import expr_depth, step_exprs, walk_expr
from ..pipeline_oracle import classify_case, close_run, engine_quirk, examine_pipeline, exc_name, is_refusal, reraise_control
from ..runner import Outcome
from . import Check

WEIGHTS = {"mutate": 18, "summarize": 7, "join": 6, "union": 7, "filter": 4, "select": 3, "rename": 2, "group_by": 4,
           "ungroup": 1, "arrange": 2, "alias": 2, "slice_head": 1, "drop": 1, "collect": 0}
RETURN_RULE_OPS = {"truediv", "pow", "mean", "sum", "add", "floordiv", "mod", "round", "hsum", "hmax", "hmin", "coalesce", "fill_null"}


def family_of_static(dt):
    import pydiverse.common as pc
    from pydiverse.transform._internal.tree import types

    dt = types.without_const(dt)
    if isinstance(dt, pc.NullType):
        return "null"
    if isinstance(dt, pc.Decimal):
        return "float"
    if dt.is_int():
        return "int"
    if dt.is_float():
        return "float"
    if isinstance(dt, pc.Bool):
        return "bool"
    if isinstance(dt, (pc.String, pc.Enum)):
        return "str"
    if isinstance(dt, pc.Datetime):
        return "datetime"
    if isinstance(dt, pc.Date):
        return "date"
    return type(dt).__name__


def is_concrete(dt):
    from pydiverse.transform._internal.tree import types

    return types.is_subtype(types.without_const(dt))


class C12(Check):
    ID = "C12"
    RULE = ("Hypothesis composite strategy: pipelines over tables with sized integer (Int8..UInt64) and Float32 columns, "
            "weighted towards column-creating verbs (mutate with typed expressions incl. null literals, lit(v, dtype), int "
            "division, bool sums, mixed int/float case expressions, mean of ints, pow; summarize; join padding; union, incl. literal tag columns of "
            "different types - Int/Float, null/typed - on the two operands). "
            "Oracle: for every output column the static `tbl[col].dtype()` vs the exported Polars dtype - equal to "
            "dtype.to_polars() for concrete types on Polars, same family for the abstract Int/Float, Null only for an "
            "all-null column; on SQLite the same family up to the width (any integer width ~ Int64, Float32 ~ Float64; a Decimal or "
            "integer column for a static Float is a failure; "
            "booleans may arrive as 0/1 integers) and skipped for empty frames; Table(exported) and collect() reproduce the "
            "exported dtypes. non-trivial = an expression of depth >=2 containing an overload with a non-trivial "
            "return-type rule (division, bool sum, case with mixed int/float, mean of ints, pow, literal widening)")
    N = {"quick": 3000, "thorough": 100000}

    def cfg(self, tier):
        deep = tier == "thorough"
        return pipegen.PCfg(weights=WEIGHTS, max_len=7 if deep else 5, min_len=1, max_tables=2, sub_len=1, sized=True, union_mixed=8,
                            expr=Cfg(max_depth=4 if deep else 3))

    def strategy(self, tier):
        return pipegen.pipeline_case(self.cfg(tier))

    def examine(self, case) -> Outcome:
        out = Outcome()
        classify_case(case, out)
        # values are not compared here (sized integer columns overflow differently per backend);
        # the reference only decides domain membership
        run = examine_pipeline(case, out, close=False, ref_compare=False)
        try:
            if out.discard is None:
                self._types(case, out, run)
        finally:
            close_run(run)
        nt = False
        for s in case["steps"]:
            for e in step_exprs(s):
                if expr_depth(e) >= 2 and any(nd[0] in ("case", "cast") or (nd[0] == "fn" and nd[1] in RETURN_RULE_OPS) for nd in walk_expr(e)):
                    nt = True
        out.nontrivial = out.discard is None and nt
        return out

    def _types(self, case, out, run):
        import polars as pl

        import pydiverse.transform as pdt
        from pydiverse.common import Dtype

        from ..oracle import dtype_family

        rv = case["result"]
        for kind, b in run.built.items():
            if b.error is not None or rv not in b.vars:
                continue
            if kind == "sqlite" and run.ref is not None and run.ref.pl_only:
                continue
            tbl = b.vars[rv]
            df = run.frames.get((kind, rv))
            if df is None:
                continue
            for name in df.columns:
                try:
                    static = tbl[name].dtype()
                except BaseException as ex:  # noqa: BLE001
                    reraise_control(ex)
                    out.fail("internal-error", f"{kind}:dtype():{exc_name(ex)}", f"{kind}: tbl[{name!r}].dtype() raised {exc_name(ex)}: {ex}")
                    continue
                got = df.schema[name]
                col = df.get_column(name)
                all_null = col.null_count() == df.height
                sfam, gfam = family_of_static(static), dtype_family(got)
                out.count(f"columns_checked:{kind}")
                if gfam == "null":
                    if not all_null:
                        out.fail("dtype", f"{kind}:null-typed-nonnull", f"{kind}: column {name} is Null-typed but holds values")
                    continue
                if sfam == "null":
                    if not all_null:
                        out.fail("dtype", f"{kind}:static-null-nonnull", f"{kind}: column {name} has static type NullType but exports {got} with values")
                    continue
                if kind == "polars" and str(got).startswith("List") and any(s_["verb"] == "summarize" for s_ in case["steps"]):
                    out.count("engine_quirk:polars_agg_returns_list")  # DESIGN 4.15 (j)
                    continue
                if kind == "polars":
                    if is_concrete(static):
                        from pydiverse.transform._internal.tree import types

                        want = types.without_const(static).to_polars()
                        if want != got and not (sfam == "str" and gfam == "str"):
                            out.fail("dtype", f"polars:{sfam}->{got}", f"polars: column {name}: static {static} (-> {want}) but exported {got}")
                    elif sfam != gfam:
                        out.fail("dtype", f"polars:{sfam}->{gfam}", f"polars: column {name}: static {static} but exported {got}")
                else:
                    if df.height == 0:
                        continue
                    # families must agree on SQLite, too (a static Float exported as Int64 or Decimal is a failure)
                    if got.is_decimal():
                        gfam = "decimal"
                    ok = (sfam == gfam or (sfam == "bool" and gfam == "int")
                          or (sfam in ("date", "datetime") and gfam == "str" and all_null))
                    if not ok:
                        out.fail("dtype", f"sqlite:{sfam}->{gfam}", f"sqlite: column {name}: static {static} but exported {got}")
            # round trips
            if kind == "polars":
                try:
                    again = pdt.Table(df)
                    for name in df.columns:
                        back = again[name].dtype()
                        if back != Dtype.from_polars(df.schema[name]):
                            out.fail("roundtrip", "Table(exported)", f"Table(exported)[{name}] has type {back}, the frame has {df.schema[name]}")
                    d2 = again >> pdt.export(pdt.Polars())
                    if dict(d2.schema) != dict(df.schema):
                        out.fail("roundtrip", "Table(exported)-export", f"re-export schema {d2.schema} vs {df.schema}")
                    if not case["steps"][-1]["verb"] == "group_by" and not run.ref.vars[rv].group:
                        c = tbl >> pdt.collect()
                        d3 = c >> pdt.export(pdt.Polars())
                        if dict(d3.schema) != dict(df.schema):
                            out.fail("roundtrip", "collect", f"collect() schema {d3.schema} vs {df.schema}")
                except BaseException as ex:  # noqa: BLE001
                    reraise_control(ex)
                    optimizer_victim = any(k.startswith("engine_quirk:polars_optimizer") for k in out.counters)
                    if exc_name(ex) == "PanicException":
                        # a Rust panic inside Polars ("entered unreachable code") is an engine bug whatever the plan (4.15 g)
                        out.count("engine_quirk:polars_panic")
                    elif not engine_quirk(ex, run.case2, run.ref) and not optimizer_victim:
                        out.fail("internal-error", f"polars:roundtrip:{exc_name(ex)}", f"round trip raised {exc_name(ex)}: {str(ex)[:200]}")


CHECK = C12()
