"""C03 — element-wise operators follow the documented null-aware semantics (DESIGN §6 C03).

(a) complete grid: every operator of the statement x every overload x operand tuples from small
    per-type grids (null, zero, +-1, +-2, +-7, +-65, equal operands), as column∘column,
    column∘literal and literal∘column; one mutate per (operator, form, chunk).
(b) nested expressions of depth 2-4 from the expression strategy.
Oracle: per-row value of the reference interpreter, on Polars and SQLite."""
from __future__ import annotations

import datetime as dt
import itertools

from .. import pipegen
from ..exprgen import Cfg
from ..ir import enc, walk_expr
from ..pipeline_oracle import classify_case, examine_pipeline
from ..runner import Outcome
from . import Check

GRID = {
    "int": [None, 0, 1, -1, 2, -2, 7, -7, 65, -65, 3],
    "float": [None, 0.0, 1.0, -1.0, 2.5, -2.5, 7.25, -65.0, 0.5],
    "bool": [None, True, False],
    "str": [None, "", "a", "A", "ab", "b%", "a_", "Ab"],
    "date": [None, dt.date(2000, 1, 1), dt.date(2000, 1, 2), dt.date(1999, 12, 31), dt.date(2100, 12, 31)],
    "datetime": [None, dt.datetime(2000, 1, 1), dt.datetime(2000, 1, 1, 12, 30, 5), dt.datetime(1999, 12, 31, 23, 59, 59)],
}
SRC = {"int": "int64", "float": "float64", "bool": "bool", "str": "str", "date": "date", "datetime": "datetime"}
NUM = ("int", "float")
CMP = ("int", "float", "str", "date", "datetime", "bool")

# operator -> list of operand family tuples (the overloads of the statement's operators)
BINARY = {
    "add": [("int", "int"), ("float", "float"), ("str", "str"), ("bool", "bool"), ("int", "float")],
    "sub": [("int", "int"), ("float", "float"), ("float", "int")],
    "mul": [("int", "int"), ("float", "float")],
    "truediv": [("int", "int"), ("float", "float")],
    "floordiv": [("int", "int")],
    "mod": [("int", "int")],
    "eq": [(f, f) for f in CMP], "ne": [(f, f) for f in CMP],
    "lt": [(f, f) for f in CMP], "le": [(f, f) for f in CMP],
    "gt": [(f, f) for f in CMP], "ge": [(f, f) for f in CMP],
    "and": [("bool", "bool")], "or": [("bool", "bool")], "xor": [("bool", "bool")],
    "fill_null": [(f, f) for f in CMP],
    "coalesce": [(f, f) for f in CMP],
    "hmax": [(f, f) for f in CMP], "hmin": [(f, f) for f in CMP],
    "hsum": [("int", "int"), ("float", "float"), ("str", "str")],
    "hany": [("bool", "bool")], "hall": [("bool", "bool")],
    "is_in": [(f, f) for f in ("int", "float", "str", "date", "bool")],
}
UNARY = {
    "neg": NUM, "pos": NUM, "abs": NUM, "invert": ("bool",), "is_null": CMP, "is_not_null": CMP,
    "floor": ("float",), "ceil": ("float",),
}


def _table(fams, rows):
    cols = [["id", "int64"]] + [[f"c{k}", SRC[f]] for k, f in enumerate(fams)]
    return {"name": "t0", "cols": cols, "rows": [[i + 1] + [enc(v) for v in r] for i, r in enumerate(rows)]}


def grid_cases():
    """Yield (label, case, ncells)."""
    S0 = {"out": "v0", "verb": "source", "table": "t0"}
    for op, sigs in BINARY.items():
        for fa, fb in sigs:
            rows = list(itertools.product(GRID[fa], GRID[fb]))
            tb = _table([fa, fb], rows)
            # column o column
            items = [["r", ["fn", op, [["col", {"c": "c0"}], ["col", {"c": "c1"}]], {}]]]
            yield f"{op}:{fa},{fb}:col-col", {"tables": [tb], "steps": [S0, {"out": "v1", "verb": "mutate", "in": "v0", "items": items}],
                                              "result": "v1"}, len(rows)
            # column o literal / literal o column: one mutate with a column per non-null literal value
            for form in ("col-lit", "lit-col"):
                vals = [v for v in GRID[fb if form == "col-lit" else fa]]
                col_fam = fa if form == "col-lit" else fb
                tb1 = _table([col_fam], [(v,) for v in GRID[col_fam]])
                items = []
                for k, v in enumerate(vals):
                    if v is None and op not in ("fill_null", "coalesce", "is_in", "eq", "ne"):
                        continue  # a bare None literal has NullType: overload resolution is C13's subject
                    lit = ["lit", enc(v)]
                    args = [["col", {"c": "c0"}], lit] if form == "col-lit" else [lit, ["col", {"c": "c0"}]]
                    if op == "is_in" and form == "lit-col":
                        continue
                    items.append([f"r{k}", ["fn", op, args, {}]])
                if not items:
                    continue
                yield f"{op}:{fa},{fb}:{form}", {"tables": [tb1], "steps": [S0, {"out": "v1", "verb": "mutate", "in": "v0", "items": items}],
                                                  "result": "v1"}, len(items) * len(GRID[col_fam])
    for op, fams in UNARY.items():
        for f in fams:
            tb = _table([f], [(v,) for v in GRID[f]])
            items = [["r", ["fn", op, [["col", {"c": "c0"}]], {}]]]
            yield f"{op}:{f}", {"tables": [tb], "steps": [S0, {"out": "v1", "verb": "mutate", "in": "v0", "items": items}], "result": "v1"}, len(GRID[f])
    # three-argument forms
    for f in ("int", "float", "str", "date"):
        rows = list(itertools.product(GRID[f], GRID[f], GRID[f]))
        tb = _table([f, f, f], rows)
        cols = [["col", {"c": f"c{k}"}] for k in range(3)]
        items = [["mx", ["fn", "hmax", cols, {}]], ["mn", ["fn", "hmin", cols, {}]], ["co", ["fn", "coalesce", cols, {}]],
                 ["isin", ["fn", "is_in", cols, {}]]]
        if f in ("int", "float"):
            items.append(["sm", ["fn", "hsum", cols, {}]])
        yield f"3ary:{f}", {"tables": [tb], "steps": [S0, {"out": "v1", "verb": "mutate", "in": "v0", "items": items}], "result": "v1"}, len(rows) * len(items)
    # five-argument forms over a small value grid (argument lists of four and more take a different path on SQLite)
    small = {"int": [None, -3, 0, 7], "float": [None, -1.5, 0.0, 2.25], "str": [None, "", "a", "B"], "bool": [None, True, False]}
    for f in ("int", "float", "str", "bool"):
        rows = list(itertools.product(small[f], repeat=5))
        tb = _table([f] * 5, rows)
        cols = [["col", {"c": f"c{k}"}] for k in range(5)]
        if f == "bool":
            items = [["an", ["fn", "hany", cols, {}]], ["al", ["fn", "hall", cols, {}]], ["co", ["fn", "coalesce", cols, {}]],
                     ["an4", ["fn", "hany", cols[1:], {}]], ["al4", ["fn", "hall", cols[:4], {}]]]
        else:
            items = [["mx", ["fn", "hmax", cols, {}]], ["mn", ["fn", "hmin", cols, {}]], ["co", ["fn", "coalesce", cols, {}]],
                     ["isin", ["fn", "is_in", cols, {}]], ["mx4", ["fn", "hmax", cols[:4], {}]], ["mn4", ["fn", "hmin", cols[1:], {}]]]
            if f in ("int", "float"):
                items += [["sm", ["fn", "hsum", cols, {}]], ["sm4", ["fn", "hsum", cols[:4], {}]]]
        yield f"5ary:{f}", {"tables": [tb], "steps": [S0, {"out": "v1", "verb": "mutate", "in": "v0", "items": items}], "result": "v1"}, len(rows) * len(items)
    rows = list(itertools.product(GRID["bool"], repeat=3))
    tb = _table(["bool"] * 3, rows)
    cols = [["col", {"c": f"c{k}"}] for k in range(3)]
    yield "3ary:bool", {"tables": [tb], "steps": [S0, {"out": "v1", "verb": "mutate", "in": "v0", "items": [
        ["an", ["fn", "hany", cols, {}]], ["al", ["fn", "hall", cols, {}]],
        ["cs", ["case", [[cols[0], cols[1]]], cols[2]]], ["cs2", ["case", [[cols[0], ["lit", True]], [cols[1], ["lit", False]]], None]]]}],
        "result": "v1"}, len(rows) * 4
    # clip / round with literal bounds
    for f in ("int", "float", "str", "date"):
        tb = _table([f], [(v,) for v in GRID[f]])
        nn = sorted(v for v in GRID[f] if v is not None)
        items = []
        for lo, hi in [(nn[0], nn[-1]), (nn[1], nn[2]), (nn[2], nn[2])]:
            items.append([f"cl{len(items)}", ["fn", "clip", [["col", {"c": "c0"}], ["lit", enc(lo)], ["lit", enc(hi)]], {}]])
        yield f"clip:{f}", {"tables": [tb], "steps": [S0, {"out": "v1", "verb": "mutate", "in": "v0", "items": items}], "result": "v1"}, len(items) * len(GRID[f])
    # an integer column clipped with float bounds, and with one float and one integer bound (the result is a Float)
    tb = _table(["int"], [(v,) for v in GRID["int"]])
    items = [[f"cm{k}", ["fn", "clip", [["col", {"c": "c0"}], ["lit", lo], ["lit", hi]], {}]]
             for k, (lo, hi) in enumerate([(-1.5, 2.5), (-1.5, 2), (-2, 2.5), (0.25, 0.75), (-100.5, 100)])]
    yield "clip:int-mixed-bounds", {"tables": [tb], "steps": [S0, {"out": "v1", "verb": "mutate", "in": "v0", "items": items}],
                                    "result": "v1"}, len(items) * len(GRID["int"])
    for f in NUM:
        vals = GRID[f] + ([1.234, -1.236, 12.5, 0.125] if f == "float" else [15, -15, 149, 1351, -1251, 26])
        tb = _table([f], [(v,) for v in vals])
        items = [[f"rd{d}".replace("-", "m"), ["fn", "round", [["col", {"c": "c0"}], ["lit", d]], {}]] for d in ((0, 1, 2, -1) if f == "float" else (0, 1, -1, -2))]
        yield f"round:{f}", {"tables": [tb], "steps": [S0, {"out": "v1", "verb": "mutate", "in": "v0", "items": items}], "result": "v1"}, len(items) * len(vals)
    # case / map
    for f in ("int", "str"):
        tb = _table([f, "bool", f], list(itertools.product(GRID[f], GRID["bool"], GRID[f][:4])))
        c0, c1, c2 = [["col", {"c": f"c{k}"}] for k in range(3)]
        k1, k2 = [v for v in GRID[f] if v is not None][:2]
        items = [["w1", ["case", [[c1, c0]], None]], ["w2", ["case", [[c1, c0]], c2]],
                 ["w3", ["case", [[["fn", "is_null", [c0], {}], c2], [c1, c0]], ["lit", enc(k1)]]],
                 ["m1", ["map", c0, [[[["lit", enc(k1)]], c2], [[["lit", enc(k2)], ["lit", enc(k1)]], ["lit", enc(k2)]]], ["lit", None]]],
                 ["m2", ["map", c0, [[[["lit", enc(k1)]], ["lit", enc(k2)]]], c2]]]
        yield f"case:{f}", {"tables": [tb], "steps": [S0, {"out": "v1", "verb": "mutate", "in": "v0", "items": items}], "result": "v1"}, len(tb["rows"]) * len(items)


class C03(Check):
    ID = "C03"
    RULE = ("(a) complete grid (exhaustive over the stated grids): every operator named in the statement x its overloads x "
            "operand tuples from per-type grids containing null, zero, +-1, +-2, +-7, +-65 and equal operands, in the forms "
            "column-column, column-literal, literal-column, plus 3-ary horizontal functions, clip, round, when/then/"
            "otherwise and map; (b) Hypothesis-generated nested expressions (depth 2-4) in one mutate over a generated "
            "table. Oracle: per-row reference value on Polars and SQLite; cells outside DESIGN section 4 skipped. "
            "non-trivial = grid mutate with >=1 non-null operand, resp. nested expression of depth >=2 over an input "
            "containing a null; distinct = canonical IR hash")
    N = {"quick": 3000, "thorough": 100000}

    def cfg(self, tier):
        return pipegen.PCfg(weights={k: 0 for k in pipegen.DEFAULT_WEIGHTS} | {"mutate": 1}, max_len=2, min_len=1,
                            agg_in_mutate=False, win_in_mutate=False, max_tables=1, captures=True,
                            expr=Cfg(max_depth=5 if tier == "thorough" else 4, isin_empty=True))

    def strategy(self, tier):
        return pipegen.pipeline_case(self.cfg(tier))

    def examine(self, case) -> Outcome:
        out = Outcome()
        classify_case(case, out)
        examine_pipeline(case, out)
        if case.get("_grid"):
            out.classes.append("grid:" + case["_grid"].split(":")[0])
            out.nontrivial = out.discard is None
            return out
        depth = 0
        from ..ir import expr_depth, step_exprs

        for s in case["steps"]:
            for e in step_exprs(s):
                depth = max(depth, expr_depth(e))
        has_null = any(v is None for t in case["tables"] for r in t["rows"] for v in r)
        out.nontrivial = out.discard is None and depth >= 2 and has_null
        out.classes.append(f"depth:{min(depth, 5)}")
        return out

    def extra_parts(self, tier, base_seed, stats):
        ncases = ncells = 0
        for label, case, cells in grid_cases():
            case["_grid"] = label
            out = self.examine(case)
            stats.add(case, out)
            ncases += 1
            ncells += cells
        return {"grid": {"mutates": ncases, "cells_per_backend": ncells, "exhaustive": True},
                "exhaustive": False, "grid_exhaustive": True}


CHECK = C03()
