"""C05 — arrange orders stably; window functions see the right rows in the right order (DESIGN §6 C05)."""
from __future__ import annotations

from .. import pipegen
from ..exprgen import Cfg
from ..ir import AGG_OPS, WIN_OPS, step_exprs, walk_expr
from ..pipeline_oracle import classify_case, examine_pipeline
from ..runner import Outcome
from . import Check


class C05(Check):
    ID = "C05"
    RULE = ("Hypothesis composite strategy: (i) arrange chains (1-3 calls x 1-3 keys, all marker combinations and marker "
            "orders, keys = columns or expressions over nullable / duplicated columns) interleaved with mutate/select/"
            "rename/alias/filter and followed by slice_head; (ii) window mutates (row_number, rank, dense_rank, shift, "
            "cum_sum, aggregates as window functions) with partition_by= or enclosing group_by, arrange= lists with "
            "markers, before/after filter, slice_head, select, rename, alias. Oracle: reference (stable multi-key sort "
            "with explicit null placement; window value per row; rows neither dropped nor reordered) vs Polars (exact "
            "sequence) and SQLite (sequence modulo ties); 10% of the cases are cum_sum over an ordering with tied keys, checked "
            "with a validity predicate (the result is the running sum of one tie-consistent row order) on both backends; another "
            "10% are rank / dense_rank over a nullable key without a nulls marker (position of nulls backend-dependent): the "
            "result must be the ranks of one of the two placements. "
            "non-trivial = arrange with a tie on its first key or a null "
            "in a key, or a window function over >=2 partitions or with a descending / nulls marker, on >=4 rows")
    N = {"quick": 3000, "thorough": 100000}

    def cfg(self, tier):
        deep = tier == "thorough"
        return pipegen.PCfg(
            weights={"arrange": 16, "mutate": 16, "filter": 7, "slice_head": 8, "select": 4, "rename": 4, "alias": 4,
                     "group_by": 5, "ungroup": 3, "drop": 1, "summarize": 0, "join": 0, "union": 0, "collect": 0},
            max_len=9 if deep else 6, min_len=2, agg_in_mutate=True, win_in_mutate=True, max_tables=1, win_direct=5,
            expr=Cfg(max_depth=3),
        )

    def strategy(self, tier):
        from hypothesis import strategies as st

        base = pipegen.pipeline_case(self.cfg(tier))

        @st.composite
        def ties_case(draw):
            # cum_sum over an ordering with ties: every tie-consistent row order is allowed, but the result has to be
            # the running sum of *one* such order (peers must not all receive the total of their tie block)
            n = draw(st.integers(2, 9))
            ks = draw(st.lists(st.sampled_from([0, 1, 1, 2, None]), min_size=n, max_size=n))
            xs = draw(st.lists(st.integers(-5, 9), min_size=n, max_size=n))
            gs = draw(st.lists(st.sampled_from([1, 2]), min_size=n, max_size=n))
            tb = {"name": "t0", "cols": [["id", "int64"], ["k", "int64"], ["x", "int64"], ["g", "int64"]],
                  "rows": [[i + 1, ks[i], xs[i], gs[i]] for i in range(n)]}
            ctx = {"arrange": [[["col", {"c": "k"}], draw(st.booleans()), draw(st.sampled_from(["first", "last"])), 0]]}
            if draw(st.booleans()):
                ctx["partition_by"] = [["col", {"c": "g"}]]
            steps = [{"out": "v0", "verb": "source", "table": "t0"},
                     {"out": "v1", "verb": "mutate", "in": "v0", "items": [["cs", ["fn", "cum_sum", [["col", {"c": "x"}]], ctx]]]}]
            return {"tables": [tb], "steps": steps, "result": "v1", "ties": True}

        @st.composite
        def unmarked_case(draw):
            # rank / dense_rank over a nullable key *without* a nulls marker: where the nulls go is backend-dependent
            # (DESIGN 4.6), but they go somewhere - every row gets the rank of one of the two placements
            n = draw(st.integers(2, 9))
            ks = draw(st.lists(st.sampled_from([0, 1, 1, 2, None, None]), min_size=n, max_size=n))
            xs = draw(st.lists(st.integers(0, 2), min_size=n, max_size=n))
            gs = draw(st.lists(st.sampled_from([1, 2]), min_size=n, max_size=n))
            tb = {"name": "t0", "cols": [["id", "int64"], ["k", "int64"], ["x", "int64"], ["g", "int64"]],
                  "rows": [[i + 1, ks[i], xs[i], gs[i]] for i in range(n)]}
            arr = [[["col", {"c": "k"}], draw(st.booleans()), None, 0]]
            if draw(st.integers(0, 2)) == 0:
                arr.append([["col", {"c": "x"}], draw(st.booleans()), None, 0])
            ctx = {"arrange": arr}
            if draw(st.booleans()):
                ctx["partition_by"] = [["col", {"c": "g"}]]
            fn = draw(st.sampled_from(["rank", "dense_rank"]))
            steps = [{"out": "v0", "verb": "source", "table": "t0"},
                     {"out": "v1", "verb": "mutate", "in": "v0", "items": [["r", ["fn", fn, [], ctx]]]}]
            return {"tables": [tb], "steps": steps, "result": "v1", "unmarked": True}

        @st.composite
        def mixed(draw):
            m = draw(st.integers(0, 9))
            return draw(ties_case()) if m == 0 else draw(unmarked_case()) if m == 1 else draw(base)

        return mixed()

    def _ties(self, case, out):
        import itertools

        from .. import build

        ctx = case["steps"][1]["items"][0][1][3]
        desc, nulls = ctx["arrange"][0][1], ctx["arrange"][0][2]
        part = bool(ctx.get("partition_by"))
        out.classes.append("ties")
        for kind in ("polars", "sqlite"):
            b = build.build(case, kind, auto_alias=True)
            try:
                if b.error is not None:
                    k, ex = b.error
                    out.fail("internal-error", f"{kind}:ties:{type(ex).__name__}", f"{kind}: {type(ex).__name__}: {ex}")
                    continue
                df = build.export_polars(b.vars["v1"])
                rows = [dict(zip(df.columns, r)) for r in df.rows()]
                if sorted(r["id"] for r in rows) != [r[0] for r in case["tables"][0]["rows"]]:
                    out.fail("mismatch", f"{kind}:ties:rows", f"{kind}: rows dropped or duplicated: {rows}")
                    continue
                for g in ({r["g"] for r in rows} if part else {None}):
                    grp = [r for r in rows if not part or r["g"] == g]

                    def rank(r):
                        k = r["k"]
                        if k is None:
                            return (0 if nulls == "first" else 2, 0)
                        return (1, -k if desc else k)

                    base = 0
                    for _, blk in itertools.groupby(sorted(grp, key=rank), key=rank):
                        blk = list(blk)
                        got = sorted(r["cs"] for r in blk)
                        ok = len(blk) > 6  # larger blocks are not enumerated
                        if not ok:
                            for perm in itertools.permutations([r["x"] for r in blk]):
                                acc, sums = base, []
                                for v in perm:
                                    acc += v
                                    sums.append(acc)
                                if sorted(sums) == got:
                                    # each row must also carry the partial sum that ends with its own value
                                    ok = True
                                    break
                        if not ok:
                            out.fail("mismatch", f"{kind}:cum_sum:ties",
                                     f"{kind}: cum_sum over tied keys is no running sum of any tie order: block {blk}, base {base}")
                        base += sum(r["x"] for r in blk)
                out.count(f"ties_checked:{kind}")
            finally:
                b.backend.close()
        ks = [r[1] for r in case["tables"][0]["rows"]]
        out.nontrivial = len(set(ks)) < len(ks)
        return out

    def _unmarked(self, case, out):
        from .. import build

        _, fn, _, ctx = case["steps"][1]["items"][0][1]
        arr = ctx["arrange"]
        part = bool(ctx.get("partition_by"))
        out.classes.append("unmarked_nulls")
        src = [dict(zip(("id", "k", "x", "g"), r)) for r in case["tables"][0]["rows"]]

        def expected(placement):
            def sk(r):
                key = []
                for (e, desc, _, _) in arr:
                    v = r[e[1]["c"]]
                    key.append((0 if placement == "first" else 2, 0) if v is None else (1, -v if desc else v))
                return tuple(key)

            exp = {}
            for r in src:
                peers = [q for q in src if not part or q["g"] == r["g"]]
                before = [sk(q) for q in peers if sk(q) < sk(r)]
                exp[r["id"]] = 1 + (len(before) if fn == "rank" else len(set(before)))
            return exp

        allowed = [expected("first"), expected("last")]
        for kind in ("polars", "sqlite"):
            b = build.build(case, kind, auto_alias=True)
            try:
                if b.error is not None:
                    k, ex = b.error
                    out.fail("internal-error", f"{kind}:unmarked:{type(ex).__name__}", f"{kind}: {type(ex).__name__}: {ex}")
                    continue
                df = build.export_polars(b.vars["v1"])
                got = {r[0]: r[-1] for r in df.select("id", "r").rows()}
                if sorted(got) != sorted(r["id"] for r in src) or len(got) != df.height:
                    out.fail("mismatch", f"{kind}:unmarked:rows", f"{kind}: rows dropped or duplicated: {df.rows()}")
                elif got not in allowed:
                    out.fail("mismatch", f"{kind}:{fn}:unmarked-nulls",
                             f"{kind}: {fn} over an unmarked nullable key is the rank of neither null placement: got {got}, "
                             f"nulls first {allowed[0]}, nulls last {allowed[1]}")
                out.count(f"unmarked_checked:{kind}")
            finally:
                b.backend.close()
        out.nontrivial = any(r["k"] is None for r in src) and any(r["k"] is not None for r in src)
        return out

    def examine(self, case) -> Outcome:
        out = Outcome()
        if case.get("ties"):
            return self._ties(case, out)
        if case.get("unmarked"):
            return self._unmarked(case, out)
        classify_case(case, out)
        run = examine_pipeline(case, out)
        nt = False
        if out.discard is None and run.ref is not None:
            big = any(len(t["rows"]) >= 4 for t in case["tables"])
            for s in run.case2["steps"]:
                t_in = run.ref.vars.get(s.get("in"))
                if s["verb"] == "arrange" and t_in is not None and big:
                    t_out = run.ref.vars.get(s["out"])
                    if t_out is not None and t_out.okeys:
                        first = t_out.okeys[0]
                        if len(set(first)) < len(first):
                            nt = True
                            out.classes.append("arrange:ties")
                if s["verb"] == "mutate" and big:
                    for e in step_exprs(s):
                        for nd in walk_expr(e):
                            if nd[0] == "fn" and (nd[1] in WIN_OPS or nd[1] in AGG_OPS):
                                ctx = nd[3] if len(nd) > 3 else {}
                                out.classes.append("window:" + nd[1])
                                marked = any(o[1] or o[2] for o in ctx.get("arrange", []))
                                parts = bool(ctx.get("partition_by")) or bool(t_in is not None and t_in.group)
                                if marked or parts:
                                    nt = True
        out.nontrivial = nt
        return out


CHECK = C05()
