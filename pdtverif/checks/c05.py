"""C05 — arrange orders stably; window functions see the right rows in the right order (DESIGN §6 C05)."""
from __future__ import annotations

from .. import pipegen
from ..exprgen import Cfg
from ..ir import AGG_OPS, WIN_OPS, step_exprs, walk_expr
from ..pipeline_oracle import classify_case, examine_pipeline
from ..runner import Outcome
from . import Check


class C05(Check):
    ID = "C05"
    RULE = ("Hypothesis composite strategy: (i) arrange chains (1-3 calls x 1-3 keys, all marker combinations and marker "
            "orders, keys = columns or expressions over nullable / duplicated columns) interleaved with mutate/select/"
            "rename/alias/filter and followed by slice_head; (ii) window mutates (row_number, rank, dense_rank, shift, "
            "cum_sum, aggregates as window functions) with partition_by= or enclosing group_by, arrange= lists with "
            "markers, before/after filter, slice_head, select, rename, alias. Oracle: reference (stable multi-key sort "
            "with explicit null placement; window value per row; rows neither dropped nor reordered) vs Polars (exact "
            "sequence) and SQLite (sequence modulo ties). non-trivial = arrange with a tie on its first key or a null "
            "in a key, or a window function over >=2 partitions or with a descending / nulls marker, on >=4 rows")
    N = {"quick": 3000, "thorough": 100000}

    def cfg(self, tier):
        deep = tier == "thorough"
        return pipegen.PCfg(
            weights={"arrange": 16, "mutate": 16, "filter": 7, "slice_head": 8, "select": 4, "rename": 4, "alias": 4,
                     "group_by": 5, "ungroup": 3, "drop": 1, "summarize": 0, "join": 0, "union": 0, "collect": 0},
            max_len=9 if deep else 6, min_len=2, agg_in_mutate=True, win_in_mutate=True, max_tables=1, win_direct=5,
            expr=Cfg(max_depth=3),
        )

    def strategy(self, tier):
        return pipegen.pipeline_case(self.cfg(tier))

    def examine(self, case) -> Outcome:
        out = Outcome()
        classify_case(case, out)
        run = examine_pipeline(case, out)
        nt = False
        if out.discard is None and run.ref is not None:
            big = any(len(t["rows"]) >= 4 for t in case["tables"])
            for s in run.case2["steps"]:
                t_in = run.ref.vars.get(s.get("in"))
                if s["verb"] == "arrange" and t_in is not None and big:
                    t_out = run.ref.vars.get(s["out"])
                    if t_out is not None and t_out.okeys:
                        first = t_out.okeys[0]
                        if len(set(first)) < len(first):
                            nt = True
                            out.classes.append("arrange:ties")
                if s["verb"] == "mutate" and big:
                    for e in step_exprs(s):
                        for nd in walk_expr(e):
                            if nd[0] == "fn" and (nd[1] in WIN_OPS or nd[1] in AGG_OPS):
                                ctx = nd[3] if len(nd) > 3 else {}
                                out.classes.append("window:" + nd[1])
                                marked = any(o[1] or o[2] for o in ctx.get("arrange", []))
                                parts = bool(ctx.get("partition_by")) or bool(t_in is not None and t_in.group)
                                if marked or parts:
                                    nt = True
        out.nontrivial = nt
        return out


CHECK = C05()
