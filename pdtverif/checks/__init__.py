"""One module per property."""
from __future__ import annotations

import importlib
import json
import os
import time

from .. import env as _env
from .. import runner


def load(check_id: str):
    mod = importlib.import_module(f"pdtverif.checks.{check_id.lower()}")
    return mod.CHECK


class Check:
    ID = "C00"
    RULE = ""
    ASSUMPTIONS = []
    N = {"quick": 2000, "thorough": 50000}
    SHARDS = {"quick": 16, "thorough": 16}
    TIME = {"quick": 70, "thorough": 780}  # per shard wall budget (seconds); running out = fewer cases

    # -- to override --
    def strategy(self, tier):
        raise NotImplementedError

    def examine(self, case) -> runner.Outcome:
        raise NotImplementedError

    def extra_parts(self, tier, base_seed, stats):
        """Complete enumerations etc. executed in the parent. May add to stats."""
        return {}

    # -- generic machinery --
    def run_shard(self, tier, shard, nshards, seed, stats, extra):
        n = max(1, self.N[tier] // nshards)
        runner.run_hypothesis(self.strategy(tier), self.examine, n, seed, stats, time_budget=self.TIME[tier])

    def replay_tier(self):
        """Replay committed witnesses. Returns ({finding_id: 'fails'|'passes'}, regressions)."""
        results, regressions = {}, []
        for kf in runner.load_findings():
            if kf["property"] != self.ID or not kf.get("witness"):
                continue
            path = os.path.join(_env.VERIF, kf["witness"])
            with open(path) as f:
                w = json.load(f)
            case = w["case"] if "case" in w else w
            out = self.examine(case)
            from .. import findings as fmod

            failing = [f for f in out.failures if fmod.matches(kf, self.ID, case, f.to_json())]
            anyfail = bool(out.failures)
            if kf.get("status") == "open":
                results[kf["id"]] = "fails" if failing else ("fails-differently" if anyfail else "passes")
                if anyfail and not failing:
                    regressions.append((kf, path, out.failures[0]))
            else:  # fixed: must pass now
                results[kf["id"]] = "fixed-passes" if not anyfail else "REGRESSED"
                if anyfail:
                    regressions.append((kf, path, out.failures[0]))
        return results, regressions

    def main(self, tier, base_seed, replay_path=None):
        t0 = time.time()
        _env.quiet()
        _env.assert_tree()
        if replay_path:
            return self.replay_file(replay_path)
        replay_results, regressions = self.replay_tier()
        stats = runner.run_sharded(self.ID, tier, self.SHARDS[tier], base_seed)
        extra_cov = self.extra_parts(tier, base_seed, stats) or {}
        for kf, path, f in regressions:
            stats.failures.append((f.sig(), json.load(open(path)).get("case", {}), f.to_json()))
        return runner.finish(self, tier, base_seed, stats, t0, replay_results=replay_results, extra_cov=extra_cov)

    def replay_file(self, path):
        with open(path) as f:
            w = json.load(f)
        case = w["case"] if "case" in w else w
        out = self.examine(case)
        self.explain(case, out)
        if out.failures:
            for f in out.failures:
                print(f"FAILURE {f.sig()}: {f.message}")
            print(f"VIOLATION property={self.ID} replay={path}")
            return 1
        print(f"replay passes: property={self.ID} {path} discard={out.discard}")
        return 0

    def explain(self, case, out):
        pass
