"""C07 — union stacks rows by column name; distinct removes duplicates (DESIGN §6 C07)."""
from __future__ import annotations

from hypothesis import strategies as st

from .. import build, pipegen, refsem
from ..exprgen import Cfg
from ..pipeline_oracle import classify_case, examine_pipeline, exc_name, reraise_control
from ..runner import Outcome
from . import Check

EXPECT = {"names": "ValueError", "names_extra": "ValueError", "types": "TypeError", "grouped_left": "ValueError", "grouped_right": "ValueError",
          "backend": "TypeError"}


def _cfg(tier):
    deep = tier == "thorough"
    return pipegen.PCfg(
        weights={"union": 22, "filter": 7, "mutate": 8, "select": 8, "rename": 5, "drop": 3, "arrange": 3, "slice_head": 2,
                 "alias": 3, "group_by": 1, "ungroup": 1, "summarize": 2, "join": 1, "collect": 0},
        max_len=7 if deep else 5, min_len=1, agg_in_mutate=False, win_in_mutate=False, max_tables=3, sub_len=2,
        expr=Cfg(max_depth=3 if deep else 2),
    )


@st.composite
def union_case(draw, tier):
    cfg = _cfg(tier)
    kind = draw(st.sampled_from(["pipeline"] * 7 + ["leak"] * 2 + ["refusal"] * 3))
    if kind == "pipeline":
        return draw(pipegen.pipeline_case(cfg))
    g = pipegen.PipeGen(draw, cfg)
    var = g.source()
    w = dict(cfg.weights)
    w["union"] = 0
    g.cfg.weights = w
    var = g.extend(var, draw(st.integers(0, 3)))
    if g.t(var).group:
        var = g.emit({"out": g.new_var(), "verb": "ungroup", "in": var})
    case = g.case
    t = g.t(var)
    if kind == "leak":
        uv = g.v_union(var, follow=False)
        if uv is None:
            case["result"] = var
            case["_gen"] = {"classes": sorted(g.classes)}
            return case
        case["result"] = uv
        ut = g.t(uv)
        # references to columns that were hidden on either side, and one that stays visible
        ustep = case["steps"][-1]
        hidden = []
        for side in (ustep["in"], ustep["right"]):
            stt = g.t(side)
            for ref, cid in g.scope(side).capt:
                if cid in stt.scope and cid not in ut.scope:
                    hidden.append(ref)
        case["leak_probes"] = hidden[:4]
        case["_gen"] = {"classes": sorted(g.classes | {"leak"})}
        return case
    # refusals
    which = draw(st.sampled_from(sorted(EXPECT)))
    target = [(n, t.fam[c]) for n, c in t.visible]
    rvar = g.sub_pipeline(frozenset(), length=0)
    rvar = g.shape_to(rvar, target) if rvar is not None else None
    if rvar is None or any(f == "null" for _, f in target):
        case["result"] = var
        case["_gen"] = {"classes": sorted(g.classes)}
        return case
    if which == "names":
        n = draw(st.sampled_from([x for x, _ in target]))
        rvar = g.emit({"out": g.new_var(), "verb": "rename", "in": rvar, "map": [[n, "zz_other"]]})
    elif which == "names_extra":
        # the right table has every column of the left one and one more
        rvar = g.emit({"out": g.new_var(), "verb": "mutate", "in": rvar, "items": [["zz_extra", ["lit", 1]]]})
    elif which == "types":
        cands = [(n, f) for n, f in target]
        n, f = draw(st.sampled_from(cands))
        other = {"int": "str", "float": "str", "str": "int", "bool": "str", "date": "int", "datetime": "int"}[f]
        lit = {"str": "q", "int": 1}[other]
        rvar = g.emit({"out": g.new_var(), "verb": "mutate", "in": rvar, "items": [[n, ["lit", lit]]]})
        rvar = g.emit({"out": g.new_var(), "verb": "select", "in": rvar, "cols": [{"c": x} for x, _ in target]})
    elif which == "grouped_left":
        var = g.emit({"out": g.new_var(), "verb": "group_by", "in": var, "cols": [{"c": target[0][0]}]})
    elif which == "grouped_right":
        rvar = g.emit({"out": g.new_var(), "verb": "group_by", "in": rvar, "cols": [{"c": target[0][0]}]})
    case["refusal"] = {"kind": which, "left": var, "right": rvar, "distinct": draw(st.booleans())}
    case["result"] = var
    case["_gen"] = {"classes": sorted(g.classes | {"refusal:" + which})}
    return case


class C07(Check):
    ID = "C07"
    RULE = ("Hypothesis composite strategy: union-heavy pipelines whose right operand is shaped to the left table's visible "
            "names in permuted order (hidden columns on either side, duplicates within/across sides, nullable columns, "
            "empty sides, chained unions, same-origin operands, verbs before and after), compared with the reference "
            "(left names/order; multiset sum or set with nulls equal) on Polars and SQLite; 'leak' cases probe columns "
            "hidden before the union (must raise ColumnNotFoundError); refusal cases (different names, an extra column on the right, no common type, "
            "grouped operand, different backends) must raise the documented exception type. non-trivial = the column "
            "order differs between the operands or an operand has hidden columns, and the union is non-empty; or a "
            "leak/refusal case")
    N = {"quick": 2500, "thorough": 60000}

    def strategy(self, tier):
        return union_case(tier)

    def examine(self, case) -> Outcome:
        out = Outcome()
        classify_case(case, out)
        if "refusal" in case:
            return self._refusal(case, out)
        run = examine_pipeline(case, out, close="leak_probes" not in case)
        try:
            if "leak_probes" in case and out.discard is None:
                for kind, b in run.built.items():
                    if b.error is not None:
                        continue
                    for ref in case["leak_probes"]:
                        step = {"out": "probe", "verb": "mutate", "in": case["result"], "items": [["pr", ["col", ref]]]}
                        try:
                            b.builder.step(step)
                            out.fail("leak", f"{kind}:hidden-column-usable-after-union",
                                     f"{kind}: reference {ref} to a column hidden before the union is still usable")
                        except BaseException as ex:  # noqa: BLE001
                            reraise_control(ex)
                            if exc_name(ex) != "ColumnNotFoundError":
                                out.fail("wrong-exception", f"{kind}:leak:{exc_name(ex)}",
                                         f"{kind}: probing {ref} raised {exc_name(ex)} instead of ColumnNotFoundError: {ex}")
                            else:
                                out.count("leak_probe_rejected")
        finally:
            if "leak_probes" in case:
                from ..pipeline_oracle import close_run

                close_run(run)
        cls = set(case.get("_gen", {}).get("classes", []))
        has_union = any(s["verb"] == "union" for s in case["steps"])
        nonempty = run.ref is not None and case["result"] in run.ref.vars and run.ref.vars[case["result"]].n > 0
        out.nontrivial = out.discard is None and has_union and ((bool(cls & {"union_permuted", "union_hidden"}) and nonempty)
                                                                or "leak" in cls)
        return out

    def _refusal(self, case, out):
        r = case["refusal"]
        want = EXPECT[r["kind"]]
        try:
            refsem.run(case)
        except (refsem.OutOfDomain, refsem.RefReject) as ex:
            out.discard = f"ref:{type(ex).__name__}"
            return out
        combos = [("polars", "polars"), ("sqlite", "sqlite")]
        if r["kind"] == "backend":
            combos = [("polars", "sqlite"), ("sqlite", "polars")]
        for lk, rk in combos:
            bl = build.build(case, lk, auto_alias=True)
            br = bl if rk == lk else build.build(case, rk, auto_alias=True)
            try:
                if bl.error or br.error:
                    e = (bl.error or br.error)[1]
                    out.fail("internal-error", f"{lk}:{exc_name(e)}", f"building the operands raised {exc_name(e)}: {e}")
                    continue
                import pydiverse.transform as pdt

                try:
                    bl.vars[r["left"]] >> pdt.union(br.vars[r["right"]], distinct=r["distinct"])
                    out.fail("accepted", f"{lk}/{rk}:refusal:{r['kind']}",
                             f"union with {r['kind']} was accepted on {lk}/{rk}, expected {want}")
                except BaseException as ex:  # noqa: BLE001
                    reraise_control(ex)
                    if exc_name(ex) != want:
                        out.fail("wrong-exception", f"{lk}/{rk}:refusal:{r['kind']}:{exc_name(ex)}",
                                 f"union with {r['kind']} raised {exc_name(ex)}, expected {want}: {ex}")
                    else:
                        out.count("refused_as_documented:" + r["kind"])
            finally:
                bl.backend.close()
                if br is not bl:
                    br.backend.close()
        out.nontrivial = True
        return out


CHECK = C07()
