"""Interpreter / tree assertions and SQL engines used by every check."""
from __future__ import annotations

import datetime as _dt
import os
import sys
import warnings

REPO = os.environ.get("PDT_REPO", "/repo")
VERIF = os.path.dirname(os.path.dirname(os.path.abspath(__file__)))


class HarnessError(Exception):
    """A failure of the machinery itself (exit 2), never a property violation."""


def assert_tree():
    import pydiverse.transform as pdt

    src = os.path.realpath(os.path.dirname(pdt.__file__))
    want = os.path.realpath(os.path.join(REPO, "src"))
    if not src.startswith(want):
        raise HarnessError(f"pydiverse.transform imported from {src}, expected below {want}")
    return src


def quiet():
    warnings.filterwarnings("ignore")
    os.environ.setdefault("POLARS_MAX_THREADS", "1")


_SQA_TYPES = None


def sqa_type(dtype: str):
    import sqlalchemy as sqa

    return {
        "int": sqa.BigInteger,
        "int8": sqa.SmallInteger,
        "int16": sqa.SmallInteger,
        "int32": sqa.Integer,
        "int64": sqa.BigInteger,
        "uint8": sqa.SmallInteger,
        "uint16": sqa.Integer,
        "uint32": sqa.BigInteger,
        "uint64": sqa.BigInteger,
        "float": sqa.Double,
        "float64": sqa.Double,
        "float32": sqa.Float,
        "bool": sqa.Boolean,
        "str": sqa.String,
        "date": sqa.Date,
        "datetime": sqa.DateTime,
        "datetime_ms": sqa.DateTime,
        "datetime_ns": sqa.DateTime,
    }[dtype]


def sqlite_engine():
    """Fresh in-memory SQLite engine with case-sensitive LIKE (DESIGN §4.4)."""
    import sqlalchemy as sqa
    from sqlalchemy.pool import StaticPool

    eng = sqa.create_engine("sqlite://", poolclass=StaticPool, connect_args={"check_same_thread": False})

    @sqa.event.listens_for(eng, "connect")
    def _pragma(dbapi_conn, _rec):  # pragma: no cover - trivial
        cur = dbapi_conn.cursor()
        cur.execute("PRAGMA case_sensitive_like=ON")
        cur.close()

    return eng


def _raise_offline(*a, **k):
    raise HarnessError("offline engine must never connect")


def offline_engine(dialect: str):
    """Driver-less engine good for build_query() only."""
    from sqlalchemy.engine.base import Engine
    from sqlalchemy.engine.url import make_url
    from sqlalchemy.pool import NullPool

    if dialect == "postgresql":
        from sqlalchemy.dialects import postgresql

        return Engine(NullPool(_raise_offline), postgresql.dialect(), make_url("postgresql://u@h/db"))
    if dialect == "mssql":
        from sqlalchemy.dialects import mssql

        return Engine(NullPool(_raise_offline), mssql.dialect(), make_url("mssql://u@h/db"))
    if dialect == "sqlite":
        from sqlalchemy.dialects import sqlite

        return Engine(NullPool(_raise_offline), sqlite.dialect(), make_url("sqlite://"))
    raise HarnessError(dialect)


def seed_base() -> int:
    try:
        return int(os.environ.get("VERIF_SEED", "1"))
    except ValueError:
        return 1
