"""Reference interpreter: a naive, row-at-a-time executable semantics of the verbs and
operators, written from the docstrings / docs.  It never imports pydiverse.

See DESIGN.md §4 (value domain, UNDEF poison, order descriptor) and §5.1.
"""
from __future__ import annotations

import datetime as dt
import functools
import itertools
import math
from fractions import Fraction

from .ir import dec, family


class _Undef:
    def __repr__(self):
        return "UNDEF"


UNDEF = _Undef()
INT_LIMIT = 2**62
FLOAT_EXACT = 2**53


class OutOfDomain(Exception):
    """The case leaves the value domain of DESIGN §4; nothing is asserted about it."""


class RefReject(Exception):
    """The reference predicts that the verb call is rejected with this exception kind."""

    def __init__(self, kind, msg=""):
        super().__init__(f"{kind}: {msg}")
        self.kind = kind


class RefBug(Exception):
    """Malformed IR / generator bug (harness error)."""


class Vec:
    __slots__ = ("fam", "vals", "agg", "gvals")

    def __init__(self, fam, vals, agg=False):
        self.fam = fam
        self.vals = vals
        self.agg = agg
        self.gvals = None


# --------------------------------------------------------------------------------------
# scalar semantics


def _chk_int(v):
    if isinstance(v, int) and not isinstance(v, bool) and abs(v) > INT_LIMIT:
        return UNDEF
    return v


def _chk_float(v):
    if isinstance(v, float) and not math.isfinite(v):
        return UNDEF
    return v


def _num_fam(fams):
    fams = [f for f in fams if f != "null"]
    if not fams:
        return "null"
    if all(f == "int" for f in fams):
        return "int"
    if all(f in ("int", "float") for f in fams):
        return "float"
    if all(f == fams[0] for f in fams):
        return fams[0]
    raise RefBug(f"incompatible families {fams}")


def _same_fam(fams):
    return _num_fam(fams)


def _tofam(v, fam):
    if v is None or v is UNDEF:
        return v
    if fam == "float" and isinstance(v, int) and not isinstance(v, bool):
        return float(v)
    return v


def _trunc_div(a, b):
    q = abs(a) // abs(b)
    return -q if (a < 0) != (b < 0) else q


def _round(x, d, fam):
    # round half -> UNDEF (tie behaviour differs between engines)
    fx = Fraction(x)
    scaled = fx * (Fraction(10) ** d)
    fl = math.floor(scaled)
    frac = scaled - fl
    if abs(frac - Fraction(1, 2)) < Fraction(1, 10**9):
        # a tie, or so close to one that the engines' scaling in floating point (x * 10**d) lands on it
        return UNDEF
    r = fl + (1 if frac > Fraction(1, 2) else 0)
    res = Fraction(r) / (Fraction(10) ** d)
    if fam == "int":
        return int(res)
    return float(res)


def _propagate(f):
    @functools.wraps(f)
    def g(*a):
        if any(x is UNDEF for x in a):
            return UNDEF
        if any(x is None for x in a):
            return None
        return f(*a)

    return g


def _kleene_and(a, b):
    if a is False or b is False:
        return False
    if a is UNDEF or b is UNDEF:
        return UNDEF
    if a is None or b is None:
        return None
    return True


def _kleene_or(a, b):
    if a is True or b is True:
        return True
    if a is UNDEF or b is UNDEF:
        return UNDEF
    if a is None or b is None:
        return None
    return False


def _eq(a, b):
    return a == b


def _is_ascii(s):
    return all(ord(c) < 128 for c in s)


def _strip(s):
    r = s.strip(" ")
    if r != r.strip():
        return UNDEF  # non-space whitespace at the border: TRIM vs strip_chars differ
    if not _is_ascii(s):
        # unicode whitespace handling differs as well; only exotic spaces matter
        if r != s.strip():
            return UNDEF
    return r


def _upper(s):
    return s.upper() if _is_ascii(s) else UNDEF


def _lower(s):
    return s.lower() if _is_ascii(s) else UNDEF


def _pow(a, b, fam):
    if fam == "int":
        if b < 0:
            return UNDEF
        if b > 64:
            return UNDEF
        r = a**b
        if abs(r) > FLOAT_EXACT:
            return UNDEF
        return float(r)
    try:
        if a < 0 and b != math.floor(b):
            return UNDEF
        if a == 0 and b < 0:
            return UNDEF
        r = math.pow(a, b)
    except (OverflowError, ValueError):
        return UNDEF
    if not math.isfinite(r) or abs(r) > 1e15:
        return UNDEF
    return r


def _cmp_vals(a, b):
    return (a > b) - (a < b)


BIN_ARITH = {"add", "sub", "mul", "truediv", "floordiv", "mod", "pow"}
CMP = {"lt": lambda a, b: a < b, "le": lambda a, b: a <= b, "gt": lambda a, b: a > b, "ge": lambda a, b: a >= b}
DT_PARTS = {
    "dt.year": lambda x: x.year,
    "dt.month": lambda x: x.month,
    "dt.day": lambda x: x.day,
    "dt.hour": lambda x: x.hour,
    "dt.minute": lambda x: x.minute,
    "dt.second": lambda x: x.second,
    "dt.day_of_week": lambda x: x.isoweekday(),
    "dt.day_of_year": lambda x: x.timetuple().tm_yday,
}


def apply_elementwise(op, fams, args):
    """fams: static families of the arguments, args: scalar values. Returns value."""
    if op in BIN_ARITH:
        a, b = args
        if a is UNDEF or b is UNDEF:
            return UNDEF
        if a is None or b is None:
            return None
        fam = _num_fam(fams)
        if op == "add":
            if fam == "str":
                return a + b
            if fam == "bool":
                return int(a) + int(b)
            if fam == "int":
                return _chk_int(a + b)
            return _chk_float(float(a) + float(b))
        if op == "sub":
            return _chk_int(a - b) if fam == "int" else _chk_float(float(a) - float(b))
        if op == "mul":
            if fam == "int":
                return _chk_int(a * b)
            r = float(a) * float(b)
            if abs(r) > 1e15 or (r != 0 and abs(r) < 1e-9):
                return UNDEF
            return _chk_float(r)
        if op == "truediv":
            if b == 0:
                return UNDEF
            return _chk_float(float(a) / float(b))
        if op == "floordiv":
            if b == 0:
                return UNDEF
            return _trunc_div(a, b)
        if op == "mod":
            if b == 0:
                return UNDEF
            return a - b * _trunc_div(a, b)
        if op == "pow":
            return _pow(a, b, fam)
    if op in ("neg", "pos", "abs"):
        (a,) = args
        if a is None or a is UNDEF:
            return a
        return -a if op == "neg" else (a if op == "pos" else abs(a))
    if op in CMP or op in ("eq", "ne"):
        a, b = args
        if a is UNDEF or b is UNDEF:
            return UNDEF
        if a is None or b is None:
            return None
        if op == "eq":
            return a == b
        if op == "ne":
            return a != b
        return CMP[op](a, b)
    if op == "and":
        return _kleene_and(*args)
    if op == "or":
        return _kleene_or(*args)
    if op == "xor":
        return _propagate(lambda a, b: a != b)(*args)
    if op == "invert":
        return _propagate(lambda a: not a)(*args)
    if op == "is_null":
        return UNDEF if args[0] is UNDEF else args[0] is None
    if op == "is_not_null":
        return UNDEF if args[0] is UNDEF else args[0] is not None
    if op == "fill_null":
        a, b = args
        fam = _num_fam(fams)
        return _tofam(b if a is None else a, fam)
    if op == "coalesce":
        fam = _num_fam(fams)
        for a in args:
            if a is UNDEF:
                return UNDEF
            if a is not None:
                return _tofam(a, fam)
        return None
    if op == "is_in":
        x, vals = args[0], args[1:]
        res = False
        for v in vals:
            res = _kleene_or(res, apply_elementwise("eq", ["x", "x"], [x, v]))
        return res
    if op in ("hmax", "hmin"):
        if any(a is UNDEF for a in args):
            return UNDEF
        fam = _num_fam(fams)
        nn = [a for a in args if a is not None]
        if not nn:
            return None
        return _tofam(max(nn) if op == "hmax" else min(nn), fam)
    if op == "hsum":
        if any(a is UNDEF for a in args):
            return UNDEF
        if any(a is None for a in args):
            return None
        fam = _num_fam(fams)
        if fam == "str":
            return "".join(args)
        if fam == "int":
            return _chk_int(sum(args))
        return _chk_float(float(sum(float(a) for a in args)))
    if op == "hany":
        return functools.reduce(_kleene_or, args)
    if op == "hall":
        return functools.reduce(_kleene_and, args)
    if op == "clip":
        x, lo, hi = args
        if x is UNDEF:
            return UNDEF
        if x is None:
            return None
        if lo is None or hi is None or lo is UNDEF or hi is UNDEF:
            return UNDEF
        if lo > hi:
            return UNDEF
        fam = _num_fam(fams)
        return _tofam(max(min(x, hi), lo), fam)
    if op == "round":
        x, d = args
        if x is None or x is UNDEF:
            return x
        if d is None or d is UNDEF:
            return UNDEF
        if fams[0] == "int":
            return x if d >= 0 else _round(x, d, "int")
        if abs(x) >= FLOAT_EXACT:
            return UNDEF
        return _round(x, d, "float")
    if op in ("floor", "ceil"):
        (x,) = args
        if x is None or x is UNDEF:
            return x
        if abs(x) >= FLOAT_EXACT:
            return UNDEF
        return float(math.floor(x) if op == "floor" else math.ceil(x))
    if op == "str.len":
        return _propagate(len)(*args)
    if op == "str.upper":
        return _propagate(_upper)(*args)
    if op == "str.lower":
        return _propagate(_lower)(*args)
    if op == "str.strip":
        return _propagate(_strip)(*args)
    if op == "str.starts_with":
        return _propagate(lambda s, p: s.startswith(p))(*args)
    if op == "str.ends_with":
        return _propagate(lambda s, p: s.endswith(p))(*args)
    if op == "str.contains":  # literal contains (allow_regex=False)
        return _propagate(lambda s, p: p in s)(*args)
    if op == "str.replace_all":
        def _rep(s, a, b):
            if a == "":
                return UNDEF
            return s.replace(a, b)

        return _propagate(_rep)(*args)
    if op == "str.slice":
        def _sl(s, o, n):
            if o < 0 or n < 0:
                return UNDEF
            return s[o : o + n]

        return _propagate(_sl)(*args)
    if op in DT_PARTS:
        if op in ("dt.hour", "dt.minute", "dt.second") and fams[0] == "date":
            raise RefBug("time part of a date")
        return _propagate(DT_PARTS[op])(*args)
    if op in ("exp", "log", "sqrt", "sin", "cos", "tan", "atan", "log10", "cbrt", "asin", "acos"):
        (x,) = args
        if x is None or x is UNDEF:
            return x
        x = float(x)
        try:
            if op == "exp":
                if abs(x) > 30:
                    return UNDEF
                return math.exp(x)
            if op == "log":
                return math.log(x) if x > 0 else UNDEF
            if op == "log10":
                return math.log10(x) if x > 0 else UNDEF
            if op == "sqrt":
                return math.sqrt(x) if x >= 0 else UNDEF
            if op == "cbrt":
                return math.copysign(abs(x) ** (1 / 3), x)
            if op in ("asin", "acos"):
                if abs(x) > 1:
                    return UNDEF
                return getattr(math, op)(x)
            return getattr(math, op)(x)
        except (ValueError, OverflowError):
            return UNDEF
    raise RefBug(f"unknown element-wise op {op}")


def result_fam(op, fams):
    if op in ("add",):
        f = _num_fam(fams)
        return "int" if f == "bool" else f
    if op in ("sub", "mul"):
        return _num_fam(fams)
    if op in ("truediv", "pow"):
        return "float"
    if op in ("floordiv", "mod"):
        return "int"
    if op in ("neg", "pos", "abs", "round"):
        return fams[0]
    if op in CMP or op in ("eq", "ne", "and", "or", "xor", "invert", "is_null", "is_not_null", "is_in", "hany", "hall",
                           "str.starts_with", "str.ends_with", "str.contains"):
        return "bool"
    if op in ("fill_null", "coalesce", "hmax", "hmin", "hsum"):
        return _num_fam(fams)
    if op == "clip":
        return _num_fam(fams)
    if op in ("floor", "ceil", "exp", "log", "sqrt", "sin", "cos", "tan", "atan", "log10", "cbrt", "asin", "acos"):
        return "float"
    if op == "str.len" or op in DT_PARTS:
        return "int"
    if op.startswith("str."):
        return "str"
    raise RefBug(f"result_fam: {op}")


# ---- casts (DESIGN §4.11) ----------------------------------------------------------

import re as _re

_INT_RE = _re.compile(r"^[+-]?[0-9]+$")
_FLOAT_RE = _re.compile(r"^[+-]?[0-9]+(\.[0-9]+)?([eE][+-]?[0-9]+)?$")

INT_RANGES = {
    "int8": (-(2**7), 2**7 - 1), "int16": (-(2**15), 2**15 - 1), "int32": (-(2**31), 2**31 - 1),
    "int64": (-(2**63), 2**63 - 1), "uint8": (0, 2**8 - 1), "uint16": (0, 2**16 - 1),
    "uint32": (0, 2**32 - 1), "uint64": (0, 2**64 - 1), "int": (-(2**63), 2**63 - 1),
}


def float_to_str(x):
    """Canonical decimal text, only where both engines print plain decimal notation."""
    if x == 0:
        return "0.0"
    if not (1e-4 <= abs(x) < 1e15):
        return UNDEF
    r = repr(float(x))
    if "e" in r or "E" in r:
        return UNDEF
    digits = r.replace("-", "").replace(".", "").lstrip("0")
    if len(digits.rstrip("0")) > 15:
        return UNDEF
    return r


def cast_value(v, src_fam, target):
    if v is None or v is UNDEF:
        return v
    tf = family(target)
    if src_fam == tf and tf not in ("int", "float"):
        return v
    if tf == "int":
        lo, hi = INT_RANGES[target]
        if src_fam == "int":
            r = v
        elif src_fam == "bool":
            r = int(v)
        elif src_fam == "float":
            if abs(v) >= 2**62:
                return UNDEF
            r = math.trunc(v)
        elif src_fam == "str":
            if not _INT_RE.match(v):
                return UNDEF
            r = int(v)
        else:
            raise RefBug(f"cast {src_fam}->{target}")
        if not (lo <= r <= hi) or abs(r) > INT_LIMIT:
            return UNDEF
        return r
    if tf == "float":
        if src_fam in ("int", "bool"):
            r = int(v)
            if abs(r) > FLOAT_EXACT:
                return UNDEF
            r = float(r)
        elif src_fam == "float":
            r = float(v)
        elif src_fam == "str":
            if not _FLOAT_RE.match(v):
                return UNDEF
            r = float(v)
            if not math.isfinite(r):
                return UNDEF
        else:
            raise RefBug(f"cast {src_fam}->{target}")
        if target == "float32":
            import struct

            try:
                r32 = struct.unpack("f", struct.pack("f", r))[0]
            except OverflowError:
                return UNDEF
            if r32 != r:
                return UNDEF  # not representable: precision behaviour is backend dependent
        return r
    if tf == "str":
        if src_fam == "int":
            return str(v)
        if src_fam == "float":
            return float_to_str(v)
        if src_fam == "date":
            return v.isoformat()
        if src_fam == "datetime":
            return v.strftime("%Y-%m-%d %H:%M:%S.%f")  # documented: YYYY-MM-DD HH:MM:SS.SSSSSS
        if src_fam == "str":
            return v
        raise RefBug(f"cast {src_fam}->str")
    if tf == "date" and src_fam == "datetime":
        return v.date()
    if tf == "datetime" and src_fam == "date":
        return dt.datetime(v.year, v.month, v.day)
    raise RefBug(f"cast {src_fam}->{target}")


# --------------------------------------------------------------------------------------
# tables


class RT:
    """Reference table state."""

    def __init__(self):
        self.n = 0
        self.data = {}  # cid -> list
        self.fam = {}  # cid -> family
        self.dtype = {}  # cid -> dtype tag of source columns / 'int','float'.. for computed
        self.visible = []  # [(name, cid)]
        self.scope = set()
        self.group = []
        self.okeys = []  # list of per-row rank lists, most significant first
        self.n_sql = 0  # how many leading okeys groups define the SQL order
        self.base_pl = True  # Polars: order below the keys is defined (exact sequence)
        self.nodes = frozenset()
        self.name = None
        self.limited = False
        self.idcols = []  # cids of unique, non-null source id columns still in scope
        self.agg_cols = set()  # columns made by the last ungrouped summarize (bookkeeping for K03)
        self.const_cols = set()  # columns defined by a literal-only expression (bookkeeping for K05)

    def copy(self):
        t = RT()
        t.n = self.n
        t.data = dict(self.data)
        t.fam = dict(self.fam)
        t.dtype = dict(self.dtype)
        t.visible = list(self.visible)
        t.scope = set(self.scope)
        t.group = list(self.group)
        t.okeys = list(self.okeys)
        t.n_sql = self.n_sql
        t.base_pl = self.base_pl
        t.nodes = self.nodes
        t.name = self.name
        t.limited = self.limited
        t.idcols = list(self.idcols)
        t.agg_cols = set(self.agg_cols)
        t.const_cols = set(self.const_cols)
        return t

    def names(self):
        return [n for n, _ in self.visible]

    def vis(self):
        return dict(self.visible)

    def hidden(self):
        v = {c for _, c in self.visible}
        return [c for c in self.scope if c not in v]

    def take(self, idx):
        self.data = {c: [v[i] for i in idx] for c, v in self.data.items() if c in self.scope}
        self.okeys = [[g[i] for i in idx] for g in self.okeys]
        self.n = len(idx)

    def rows_visible(self):
        cols = [self.data[c] for _, c in self.visible]
        return [tuple(col[i] for col in cols) for i in range(self.n)]


class Env:
    def __init__(self, case):
        self.case = case
        self.tables = {t["name"]: t for t in case["tables"]}
        self.vars = {}
        self._next = itertools.count(1)
        self.pl_only = False  # result depends on the frame order of a Polars source
        self.flags = set()

    def new_id(self):
        return next(self._next)


# ---- ordering -------------------------------------------------------------------------


def make_cmp(keys):
    """keys: [(vals, desc, nulls)] -> cmp(i, j)"""

    def cmp(i, j):
        for vals, desc, nulls in keys:
            a, b = vals[i], vals[j]
            if a is UNDEF or b is UNDEF:
                raise OutOfDomain("UNDEF in sort key")
            if a is None or b is None:
                if a is None and b is None:
                    continue
                if nulls is None:
                    raise OutOfDomain("null position unspecified")
                first = nulls == "first"
                if a is None:
                    return -1 if first else 1
                return 1 if first else -1
            c = _cmp_vals(a, b)
            if c:
                return -c if desc else c
        return 0

    return cmp


def order_and_ranks(n, keys, idx=None):
    cmp = make_cmp(keys)
    idx = list(range(n)) if idx is None else list(idx)
    order = sorted(idx, key=functools.cmp_to_key(cmp))
    ranks = {}
    r = 0
    for k, i in enumerate(order):
        if k > 0 and cmp(order[k - 1], i) != 0:
            r += 1
        ranks[i] = r
    return order, ranks


# ---- expression evaluation ----------------------------------------------------------------


class Evaluator:
    def __init__(self, env: Env, t: RT, mode="mutate", groups=None):
        self.env = env
        self.t = t
        self.mode = mode  # 'mutate' | 'summarize' | 'plain' (no agg/window allowed)
        self.groups = groups  # summarize: list of row-index lists

    # column reference -> cid (scope-checked)
    def resolve(self, ref, *, visible_only=False):
        t = self.t
        if "c" in ref:
            vis = t.vis()
            if ref["c"] not in vis:
                raise RefReject("ColumnNotFoundError", f"C.{ref['c']}")
            return vis[ref["c"]]
        src = self.env.vars.get(ref["v"])
        if src is None:
            raise RefBug(f"unknown table variable {ref['v']}")
        vis = src.vis()
        if ref["n"] not in vis:
            raise RefBug(f"{ref['v']} has no visible column {ref['n']}")
        cid = vis[ref["n"]]
        if cid not in t.scope:
            raise RefReject("ColumnNotFoundError", f"{ref['v']}.{ref['n']}")
        if visible_only and cid not in {c for _, c in t.visible}:
            raise RefReject("ColumnNotFoundError", f"{ref['v']}.{ref['n']} hidden")
        return cid

    def rows(self, e) -> Vec:
        t = self.t
        k = e[0]
        if k == "col":
            cid = self.resolve(e[1])
            return Vec(t.fam[cid], t.data[cid])
        if k == "lit":
            v = dec(e[1])
            if len(e) > 2:
                fam = family(e[2])
            else:
                fam = lit_family(v)
            return Vec(fam, [_tofam(v, fam)] * t.n)
        if k == "cast":
            x = self.rows(e[1])
            tf = family(e[2])
            return Vec(tf, [cast_value(v, x.fam, e[2]) for v in x.vals])
        if k == "case":
            conds = [self.rows(c) for c, _ in e[1]]
            vals = [self.rows(v) for _, v in e[1]]
            dflt = self.rows(e[2]) if e[2] is not None else None
            fam = _num_fam([v.fam for v in vals] + ([dflt.fam] if dflt is not None else []))
            out = []
            for i in range(t.n):
                r = None if dflt is None else dflt.vals[i]
                for c, v in zip(conds, vals):
                    cv = c.vals[i]
                    if cv is UNDEF:
                        r = UNDEF
                        break
                    if cv is True:
                        r = v.vals[i]
                        break
                else:
                    pass
                out.append(_tofam(r, fam))
            return Vec(fam, out)
        if k == "map":
            x = self.rows(e[1])
            branches = [([self.rows(kk) for kk in keys], self.rows(v)) for keys, v in e[2]]
            dflt = self.rows(e[3]) if e[3] is not None else None
            fam = _num_fam([v.fam for _, v in branches] + ([dflt.fam] if dflt is not None else [x.fam]))
            out = []
            for i in range(t.n):
                r = (x.vals[i] if dflt is None else dflt.vals[i])
                for keys, v in branches:
                    m = apply_elementwise("is_in", None, [x.vals[i]] + [kk.vals[i] for kk in keys])
                    if m is UNDEF:
                        r = UNDEF
                        break
                    if m is True:
                        r = v.vals[i]
                        break
                out.append(_tofam(r, fam))
            return Vec(fam, out)
        if k == "fn":
            op, args = e[1], e[2]
            ctx = e[3] if len(e) > 3 else {}
            from .ir import AGG_OPS, WIN_OPS

            if op in AGG_OPS:
                return self._agg_rows(op, args, ctx)
            if op in WIN_OPS:
                return self._win_rows(op, args, ctx)
            if ctx:
                raise RefBug(f"context kwargs on element-wise op {op}")
            vs = [self.rows(a) for a in args]
            fams = [v.fam for v in vs]
            fam = result_fam(op, fams)
            out = []
            for i in range(t.n):
                r = apply_elementwise(op, fams, [v.vals[i] for v in vs])
                out.append(_tofam(r, fam))
            return Vec(fam, out)
        raise RefBug(f"bad expr {e!r}")

    # -- aggregates -------------------------------------------------------------------
    def _agg_arg(self, op, args, ctx):
        t = self.t
        filt = None
        if ctx.get("filter"):
            fs = [self.rows(f) for f in ctx["filter"]]
            filt = [functools.reduce(_kleene_and, [f.vals[i] for f in fs]) for i in range(t.n)]
        if op == "count_star":
            return None, filt
        x = self.rows(args[0])
        if filt is not None:
            vals = []
            for v, f in zip(x.vals, filt):
                if f is UNDEF:
                    vals.append(UNDEF)
                else:
                    vals.append(v if f is True else None)
            x = Vec(x.fam, vals)
        return x, filt

    @staticmethod
    def agg_fam(op, fam):
        if op in ("count", "count_star"):
            return "int"
        if op == "mean":
            return "float"
        if op == "sum":
            return "int" if fam == "bool" else fam
        if op in ("any", "all"):
            return "bool"
        return fam

    @staticmethod
    def reduce(op, fam, vals, nrows, filt=None):
        if op == "count_star":
            if filt is None:
                return nrows
            if any(f is UNDEF for f in filt):
                return UNDEF
            return sum(1 for f in filt if f is True)
        if any(v is UNDEF for v in vals):
            return UNDEF
        nn = [v for v in vals if v is not None]
        if op == "count":
            return len(nn)
        if not nn:
            return None
        if op == "sum":
            if fam == "bool":
                return sum(1 for v in nn if v)
            if fam == "int":
                return _chk_int(sum(nn))
            return _chk_float(float(sum(Fraction(v) for v in nn)))
        if op == "mean":
            return _chk_float(float(sum(Fraction(v) for v in nn) / len(nn)))
        if op == "min":
            return min(nn)
        if op == "max":
            return max(nn)
        if op == "any":
            return any(nn)
        if op == "all":
            return all(nn)
        raise RefBug(op)

    def _partitions(self, ctx):
        t = self.t
        if "partition_by" in ctx:
            cids = [self.resolve(c[1]) for c in ctx["partition_by"]]
        else:
            cids = list(t.group)
        return partition_rows(t, cids)

    def _agg_rows(self, op, args, ctx):
        t = self.t
        if self.mode == "plain":
            raise RefReject("FunctionTypeError", f"aggregate {op} not allowed here")
        x, filt = self._agg_arg(op, args, ctx)
        fam = self.agg_fam(op, x.fam if x is not None else None)
        if self.mode == "summarize" and "partition_by" not in ctx:
            parts = self.groups
        else:
            parts = self._partitions(ctx)
        out = [None] * t.n
        gvals = []
        keys = delim = None
        if op == "str.join":
            # the SQLite of this sandbox has neither string_agg nor ordered aggregates: Polars only
            self.env.pl_only = True
            if x.fam not in ("str", "null"):
                raise RefReject("DataTypeError", "str.join of a non-string")
            delim = dec(args[1][1]) if len(args) > 1 else ""
            arr = ctx.get("arrange")
            if arr:
                keys = [(self.rows(o[0]).vals, bool(o[1]), o[2]) for o in arr]
            elif not t.base_pl:
                raise OutOfDomain("str.join over an undefined row order")
        for rows in parts:
            if op == "str.join":
                order = list(rows)
                if keys is not None:
                    order, ranks = order_and_ranks(t.n, keys, rows)
                    live = [i for i in order if x.vals[i] is not None]
                    if len({ranks[i] for i in live}) != len(live):
                        raise OutOfDomain("ties in arrange= of str.join")
                vals = [x.vals[i] for i in order]
                if any(v is UNDEF for v in vals):
                    r = UNDEF
                else:
                    vals = [v for v in vals if v is not None]
                    r = delim.join(vals) if vals else None  # nulls are skipped; nothing to join gives null
                gvals.append(r)
                for i in rows:
                    out[i] = r
                continue
            r = self.reduce(op, x.fam if x is not None else None,
                            [x.vals[i] for i in rows] if x is not None else [], len(rows),
                            [filt[i] for i in rows] if filt is not None else None)
            r = _tofam(r, fam)
            gvals.append(r)
            for i in rows:
                out[i] = r
        v = Vec(fam, out, agg=True)
        v.gvals = gvals if (self.mode == "summarize" and "partition_by" not in ctx) else None
        return v

    # -- window functions ---------------------------------------------------------------
    def _win_rows(self, op, args, ctx):
        t = self.t
        if self.mode != "mutate":
            raise RefReject("FunctionTypeError", f"window function {op} not allowed here")
        parts = self._partitions(ctx)
        arr = ctx.get("arrange")
        keys = None
        if arr:
            keys = [(self.rows(o[0]).vals, bool(o[1]), o[2]) for o in arr]
        elif op in ("rank", "dense_rank"):
            raise RefBug("rank needs arrange")
        else:
            # current row order: only defined for a Polars frame order
            if not (t.base_pl):
                raise OutOfDomain("window function over an undefined row order")
            self.env.pl_only = True
        x = self.rows(args[0]) if args else None
        fam = "int" if op in ("row_number", "rank", "dense_rank") else x.fam
        out = [None] * t.n
        for rows in parts:
            if keys is not None:
                order, ranks = order_and_ranks(t.n, keys, rows)
            else:
                order, ranks = list(rows), {i: k for k, i in enumerate(rows)}
            if op in ("row_number", "shift", "cum_sum") and keys is not None:
                if len(set(ranks.values())) != len(order):
                    raise OutOfDomain(f"ties in arrange= of {op}")
            if op == "row_number":
                for k, i in enumerate(order):
                    out[i] = k + 1
            elif op == "rank":
                # 1 + number of rows sorting strictly before
                cnt = {}
                for i in order:
                    cnt[ranks[i]] = cnt.get(ranks[i], 0) + 1
                before, acc = {}, 0
                for r in sorted(cnt):
                    before[r] = acc
                    acc += cnt[r]
                for i in order:
                    out[i] = 1 + before[ranks[i]]
            elif op == "dense_rank":
                for i in order:
                    out[i] = 1 + ranks[i]
            elif op == "shift":
                if args[1][0] != "lit":
                    # K07: `n` given as a (constant) column instead of a python value
                    raise OutOfDomain("shift distance is not a literal")
                n = dec(args[1][1])
                fill = dec(args[2][1]) if len(args) > 2 else None
                for k, i in enumerate(order):
                    src = k - n
                    if 0 <= src < len(order):
                        out[i] = x.vals[order[src]]
                    else:
                        out[i] = _tofam(fill, fam)
            elif op == "cum_sum":
                acc = None
                for i in order:
                    v = x.vals[i]
                    if v is UNDEF or acc is UNDEF:
                        acc = UNDEF
                    elif v is not None:
                        acc = v if acc is None else acc + v
                        if x.fam == "int":
                            acc = _chk_int(acc)
                    out[i] = acc
        return Vec(fam, out)

    # -- summarize: one value per group -------------------------------------------------
    def group_vals(self, e) -> Vec:
        """Evaluate expression e in group space (mode summarize)."""
        t = self.t
        k = e[0]
        ng = len(self.groups)
        if k == "col":
            cid = self.resolve(e[1])
            if cid not in t.group:
                raise RefReject("FunctionTypeError", "column neither aggregated nor grouping")
            return Vec(t.fam[cid], [t.data[cid][g[0]] for g in self.groups])
        if k == "lit":
            v = dec(e[1])
            fam = family(e[2]) if len(e) > 2 else lit_family(v)
            return Vec(fam, [_tofam(v, fam)] * ng)
        if k == "fn":
            from .ir import AGG_OPS, WIN_OPS

            op = e[1]
            if op in WIN_OPS:
                raise RefReject("FunctionTypeError", "window function in summarize")
            if op in AGG_OPS:
                v = self._agg_rows(op, e[2], e[3] if len(e) > 3 else {})
                return Vec(v.fam, v.gvals)
            vs = [self.group_vals(a) for a in e[2]]
            fams = [v.fam for v in vs]
            fam = result_fam(op, fams)
            return Vec(fam, [_tofam(apply_elementwise(op, fams, [v.vals[i] for v in vs]), fam) for i in range(ng)])
        if k == "cast":
            x = self.group_vals(e[1])
            return Vec(family(e[2]), [cast_value(v, x.fam, e[2]) for v in x.vals])
        if k in ("case", "map"):
            # evaluate through a tiny table in group space
            sub = _GroupSpace(self, ng)
            return sub.rows(e)
        raise RefBug(f"bad expr {e!r}")


class _GroupSpace(Evaluator):
    """Evaluates case/map expressions over groups by delegating leaves to group_vals."""

    def __init__(self, parent, ng):
        self.parent = parent
        self.env = parent.env
        self.mode = "plain"
        fake = RT()
        fake.n = ng
        self.t = fake

    def rows(self, e):
        if e[0] in ("case", "map"):
            return Evaluator.rows(self, e)
        return self.parent.group_vals(e)


def lit_family(v):
    if v is None:
        return "null"
    if isinstance(v, bool):
        return "bool"
    if isinstance(v, int):
        return "int"
    if isinstance(v, float):
        return "float"
    if isinstance(v, str):
        return "str"
    if isinstance(v, dt.datetime):
        return "datetime"
    if isinstance(v, dt.date):
        return "date"
    raise RefBug(f"literal {v!r}")


def _gkey(v):
    # grouping / distinct key: null is a value of its own
    if v is UNDEF:
        raise OutOfDomain("UNDEF in grouping key")
    if isinstance(v, float) and v == math.floor(v) and abs(v) < 2**53:
        return ("n", int(v))
    if isinstance(v, bool):
        return ("b", v)
    if isinstance(v, int):
        return ("n", v)
    return (type(v).__name__, v)


def partition_rows(t: RT, cids):
    if not cids:
        return [list(range(t.n))]
    groups = {}
    for i in range(t.n):
        k = tuple(_gkey(t.data[c][i]) for c in cids)
        groups.setdefault(k, []).append(i)
    return list(groups.values())


# --------------------------------------------------------------------------------------
# verbs


def _colref_cid(env, t, ref, visible_only=True):
    return Evaluator(env, t).resolve(ref, visible_only=visible_only)


def _check_no_undef_pred(vals):
    if any(v is UNDEF for v in vals):
        raise OutOfDomain("UNDEF in predicate")


def apply_step(env: Env, step) -> RT:
    v = step["verb"]
    if v == "source":
        tb = env.tables[step["table"]]
        t = RT()
        t.n = len(tb["rows"])
        for j, (name, dtype) in enumerate(tb["cols"]):
            cid = env.new_id()
            t.data[cid] = [dec(r[j]) for r in tb["rows"]]
            t.fam[cid] = family(dtype)
            t.dtype[cid] = dtype
            t.visible.append((name, cid))
            t.scope.add(cid)
            if name == "id" and j == 0:
                t.idcols = [cid]
        t.name = step.get("name", tb["name"])
        t.nodes = frozenset([step["out"]])
        t.base_pl = True
        env.vars[step["out"]] = t
        return t

    src = env.vars[step["in"]]
    t = src.copy()
    t.nodes = src.nodes | {step["out"]}
    fn = globals()["_v_" + v]
    res = fn(env, t, step)
    res = res if res is not None else t
    env.vars[step["out"]] = res
    return res


def _v_select(env, t, step):
    cids = []
    for ref in step["cols"]:
        if "c" in ref:
            if ref["c"] not in t.vis():
                raise RefReject("ColumnNotFoundError", ref["c"])
        cid = Evaluator(env, t).resolve(ref)
        if cid not in {c for _, c in t.visible}:
            raise RefReject("ColumnNotFoundError", "hidden column re-selected")
        cids.append(cid)
    name_of = {c: n for n, c in t.visible}
    t.visible = [(name_of[c], c) for c in cids]


def _v_drop(env, t, step):
    dropped = {Evaluator(env, t).resolve(ref) for ref in step["cols"]}
    t.visible = [(n, c) for n, c in t.visible if c not in dropped]


def _v_rename(env, t, step):
    vis = t.vis()
    name_of = {c: n for n, c in t.visible}
    m = {}
    for key, new in step["map"]:
        if isinstance(key, str):
            if key not in vis:
                raise RefReject("ValueError", f"no column {key}")
            m[key] = new
        else:
            if "c" in key and key["c"] not in vis:
                raise RefReject("ColumnNotFoundError", key["c"])
            cid = Evaluator(env, t).resolve(key)
            if cid not in name_of:
                raise RefReject("KeyError", "rename of hidden column")
            m[name_of[cid]] = new
    new_names = [m.get(n, n) for n, _ in t.visible]
    if len(set(new_names)) != len(new_names):
        raise RefReject("ValueError", "duplicate column name")
    t.visible = [(nn, c) for nn, (_, c) in zip(new_names, t.visible)]


def _new_cols(env, t, items, vecs):
    names = [n for n, _ in items]
    if len(set(names)) != len(names):
        raise RefBug("duplicate names in one call")
    for (name, _), vec in zip(items, vecs):
        cid = env.new_id()
        t.data[cid] = vec.vals
        t.fam[cid] = vec.fam
        t.dtype[cid] = vec.fam
        t.scope.add(cid)
        if name in t.vis():
            t.visible = [(n, c) for n, c in t.visible if n != name]
        t.visible.append((name, cid))


def _v_mutate(env, t, step):
    from .ir import walk_expr

    ev = Evaluator(env, t, "mutate")
    vecs = [ev.rows(e) for _, e in step["items"]]
    n_before = set(t.scope)
    # a mutate that overwrites a visible column keeps its position?  documented: adds
    # new columns; the implementation appends.  (checked against both backends)
    from .ir import AGG_OPS, WIN_OPS

    const_before = set(t.const_cols)
    is_const = []
    for name, e in step["items"]:
        c = True
        for nd in walk_expr(e):
            if nd[0] == "col" and ev.resolve(nd[1]) not in const_before:
                c = False
            if nd[0] == "fn" and nd[1] in (AGG_OPS | WIN_OPS):
                c = False
        is_const.append(c)
    _new_cols(env, t, step["items"], vecs)
    vis = t.vis()
    for (name, e), c in zip(step["items"], is_const):
        if c:
            t.const_cols.add(vis[name])


def _v_filter(env, t, step):
    ev = Evaluator(env, t, "plain")
    keep = [True] * t.n
    for p in step["preds"]:
        vec = ev.rows(p)
        if vec.fam not in ("bool", "null"):
            raise RefReject("DataTypeError", "non-boolean predicate")
        _check_no_undef_pred(vec.vals)
        keep = [k and (x is True) for k, x in zip(keep, vec.vals)]
    t.take([i for i in range(t.n) if keep[i]])


def _v_arrange(env, t, step):
    ev = Evaluator(env, t, "mutate")
    keys = [(ev.rows(k[0]).vals, bool(k[1]), k[2]) for k in step["keys"]]
    order, ranks = order_and_ranks(t.n, keys)
    t.okeys = [[ranks[i] for i in range(t.n)]] + t.okeys
    t.n_sql += 1
    t.take(order)


def order_is_total(t: RT, nkeys) -> bool:
    """The key tuples single out a definite row sequence, up to rows that agree on every
    column still in scope (their order cannot be observed)."""
    seen = {}
    cols = sorted(t.scope)
    for i in range(t.n):
        k = tuple(g[i] for g in t.okeys[:nkeys])
        full = tuple(_gkey(t.data[c][i]) if t.data[c][i] is not UNDEF else ("u", i) for c in cols)
        if k in seen:
            if seen[k] != full:
                return False
        else:
            seen[k] = full
    return True


def _v_slice_head(env, t, step):
    if t.group:
        raise RefReject("ValueError", "slice_head on grouped table")
    n, off = step["n"], step.get("offset", 0)
    if n < 0 or off < 0:
        raise OutOfDomain("negative slice")
    sql_total = order_is_total(t, t.n_sql)
    pl_total = t.base_pl or order_is_total(t, len(t.okeys))
    if not pl_total:
        raise OutOfDomain("slice of a non-total order")
    if not sql_total:
        env.pl_only = True
        env.flags.add("slice_not_total_sql")
    t.take(list(range(off, min(t.n, off + n))))
    t.limited = True


def _v_group_by(env, t, step):
    cids = []
    for ref in step["cols"]:
        if "c" in ref and ref["c"] not in t.vis():
            raise RefReject("ColumnNotFoundError", ref["c"])
        cid = Evaluator(env, t).resolve(ref)
        if cid not in {c for _, c in t.visible}:
            raise RefReject("ValueError", "group by hidden column")
        cids.append(cid)
    t.group = (t.group + cids) if step.get("add") else cids


def _v_ungroup(env, t, step):
    t.group = []


def _v_summarize(env, t, step):
    if not step["items"] and not t.group:
        raise RefReject("ValueError", "summarize without columns")
    name_of = {c: n for n, c in t.visible}
    for g in t.group:
        if g not in name_of:
            # the grouping columns are part of the result, so they must still be selected (ValueError since F55)
            raise RefReject("ValueError", "hidden grouping column at summarize")
    groups = partition_rows(t, t.group) if t.group else [list(range(t.n))]
    if t.group and t.n == 0:
        groups = []
    ev = Evaluator(env, t, "summarize", groups)
    vecs = [ev.group_vals(e) for _, e in step["items"]]
    new_names = {n for n, _ in step["items"]}
    res = RT()
    res.n = len(groups)
    res.name = t.name
    res.nodes = t.nodes
    res.base_pl = len(groups) <= 1
    for g in t.group:
        if name_of[g] in new_names:
            continue
        res.data[g] = [t.data[g][rows[0]] for rows in groups]
        res.fam[g] = t.fam[g]
        res.dtype[g] = t.dtype[g]
        res.visible.append((name_of[g], g))
        res.scope.add(g)
    _new_cols(env, res, step["items"], vecs)
    if not t.group:
        res.agg_cols = {c for n, c in res.visible if n in new_names}
    return res


def _v_alias(env, t, step):
    if step.get("name") is not None:
        t.name = step["name"]
    if not step.get("keep", False):
        m = {c: env.new_id() for c in t.scope}
        t.data = {m[c]: v for c, v in t.data.items() if c in m}
        t.fam = {m[c]: v for c, v in t.fam.items() if c in m}
        t.dtype = {m[c]: v for c, v in t.dtype.items() if c in m}
        t.visible = [(n, m[c]) for n, c in t.visible]
        t.scope = set(m.values())
        t.group = [m[c] for c in t.group]
        t.idcols = [m[c] for c in t.idcols]
        t.agg_cols = {m[c] for c in t.agg_cols if c in m}  # bookkeeping for K03 / K05: alias alone is no subquery
        t.const_cols = {m[c] for c in t.const_cols if c in m}
        t.nodes = frozenset([step["out"]])
    # on SQL an ORDER BY below a materialised subquery is not guaranteed to survive
    t.n_sql = 0


def _v_collect(env, t, step):
    vis = {c for _, c in t.visible}
    if step.get("keep", True):
        for g in t.group:
            if g not in vis:
                raise RefReject("ValueError", "hidden grouping column at collect")
        t.scope = set(vis)
        t.data = {c: v for c, v in t.data.items() if c in vis}
        t.idcols = [c for c in t.idcols if c in vis]
    else:
        m = {c: env.new_id() for c in vis}
        t.data = {m[c]: v for c, v in t.data.items() if c in m}
        t.fam = {m[c]: v for c, v in t.fam.items() if c in m}
        t.dtype = {m[c]: v for c, v in t.dtype.items() if c in m}
        t.visible = [(n, m[c]) for n, c in t.visible]
        t.scope = set(m.values())
        t.group = []
        t.idcols = [m[c] for c in t.idcols if c in m]
        t.nodes = frozenset([step["out"]])
    t.limited = False


def _v_rematerialize(env, t, step):
    """Table(export(t)): a new source table holding the visible data (fresh column ids)."""
    vis = {c for _, c in t.visible}
    m = {c: env.new_id() for c in vis}
    t.data = {m[c]: v for c, v in t.data.items() if c in m}
    t.fam = {m[c]: v for c, v in t.fam.items() if c in m}
    t.dtype = {m[c]: v for c, v in t.dtype.items() if c in m}
    t.visible = [(n, m[c]) for n, c in t.visible]
    t.scope = set(m.values())
    t.group = []
    t.idcols = [m[c] for c in t.idcols if c in m]
    t.agg_cols, t.const_cols = set(), set()
    t.nodes = frozenset([step["out"]])
    t.limited = False


def _v_transfer(env, t, step):
    ref = env.vars[step["ref"]]
    rv = ref.vis()
    for n, _ in t.visible:
        if n not in rv:
            raise RefReject("ValueError", f"{n} missing in ref_source")
    m = {c: rv[n] for n, c in t.visible}
    if len(set(m.values())) != len(m):
        raise RefBug("transfer map not injective")
    t.data = {m[c]: v for c, v in t.data.items() if c in m}
    t.fam = {m[c]: v for c, v in t.fam.items() if c in m}
    t.dtype = {m[c]: v for c, v in t.dtype.items() if c in m}
    t.visible = [(n, m[c]) for n, c in t.visible]
    t.scope = set(m.values())
    t.group = [m[c] for c in t.group]
    t.idcols = [m[c] for c in t.idcols if c in m]
    t.nodes = frozenset([step["out"]]) | t.nodes


def join_rename(left: RT, right: RT, on_cids, user_suffix):
    """Names of the right columns after the join (documented rule as implemented)."""
    left_names = set(left.names())
    right_names = right.names()
    if user_suffix:
        for n in right_names:
            if n + user_suffix in left_names:
                raise RefReject("ValueError", "user suffix collision")
        return {n: n + user_suffix for n in right_names}
    if not (set(right_names) & left_names):
        return {n: n for n in right_names}
    suffix = "_" + right.name if right.name is not None else "_right"
    cnt = 0

    def sfx(n):
        return n + suffix + (f"_{cnt}" if cnt > 0 else "")

    while any(sfx(n) in left_names or sfx(n) in right_names for n in right_names):
        cnt += 1
    if cnt > 0:
        suffix += f"_{cnt}"
    right_on = {n for n, c in right.visible if c in on_cids}
    if not ((set(right_names) - right_on) & left_names):
        return {n: (n + suffix if n in left_names else n) for n in right_names}
    return {n: n + suffix for n in right_names}


def _v_join(env, t, step):
    left = t
    right = env.vars[step["right"]]
    how = step["how"]
    if left.group or right.group:
        raise RefReject("ValueError", "join of grouped table")
    if left.nodes & right.nodes:
        raise RefReject("ValueError", "same-origin join")
    # product table for evaluating `on`
    prod = RT()
    prod.n = left.n * right.n
    pairs = [(i, j) for i in range(left.n) for j in range(right.n)]
    for c in left.scope:
        prod.data[c] = [left.data[c][i] for i, _ in pairs]
        prod.fam[c] = left.fam[c]
    for c in right.scope:
        if c in prod.data:
            raise RefBug("column id on both sides")
        prod.data[c] = [right.data[c][j] for _, j in pairs]
        prod.fam[c] = right.fam[c]
    prod.scope = left.scope | right.scope
    lv, rv = left.vis(), right.vis()
    on_exprs = []
    for o in step["on"]:
        if isinstance(o, str):
            if o not in lv or o not in rv:
                raise RefReject("ColumnNotFoundError", o)
            on_exprs.append(("pair", lv[o], rv[o]))
        else:
            on_exprs.append(("expr", o))

    class JoinEval(Evaluator):
        def resolve(self, ref, *, visible_only=False):
            if "c" in ref:
                n = ref["c"]
                if n in lv:
                    if n in rv:
                        raise RefReject("ValueError", "ambiguous")
                    return lv[n]
                if n not in rv:
                    raise RefReject("ValueError", "not found in on")
                return rv[n]
            srct = self.env.vars[ref["v"]]
            vis = srct.vis()
            if ref["n"] not in vis:
                raise RefBug("bad capture")
            cid = vis[ref["n"]]
            if cid not in prod.scope:
                raise RefReject("ValueError", "column in on not in either table")
            return cid

    ev = JoinEval(env, prod, "plain")
    on_cids = set()
    match = [True] * prod.n
    for o in on_exprs:
        if o[0] == "pair":
            a, b = prod.data[o[1]], prod.data[o[2]]
            on_cids |= {o[1], o[2]}
            vals = [apply_elementwise("eq", None, [x, y]) for x, y in zip(a, b)]
        else:
            from .ir import walk_expr

            for nd in walk_expr(o[1]):
                if nd[0] == "col":
                    on_cids.add(ev.resolve(nd[1]))
            vec = ev.rows(o[1])
            if vec.fam not in ("bool", "null"):
                raise RefReject("DataTypeError", "non-boolean on")
            vals = vec.vals
        _check_no_undef_pred(vals)
        match = [m and (x is True) for m, x in zip(match, vals)]
    ren = join_rename(left, right, on_cids, step.get("suffix"))

    out_pairs = []
    matched_r = set()
    for i in range(left.n):
        any_m = False
        for j in range(right.n):
            if match[i * right.n + j]:
                out_pairs.append((i, j))
                any_m = True
                matched_r.add(j)
        if not any_m and how in ("left", "full"):
            out_pairs.append((i, None))
    if how == "full":
        for j in range(right.n):
            if j not in matched_r:
                out_pairs.append((None, j))

    res = RT()
    res.n = len(out_pairs)
    res.name = left.name
    res.nodes = left.nodes | right.nodes | {step["out"]}
    res.base_pl = False
    for c in left.scope:
        res.data[c] = [None if i is None else left.data[c][i] for i, _ in out_pairs]
        res.fam[c] = left.fam[c]
        res.dtype[c] = left.dtype[c]
    for c in right.scope:
        res.data[c] = [None if j is None else right.data[c][j] for _, j in out_pairs]
        res.fam[c] = right.fam[c]
        res.dtype[c] = right.dtype[c]
    res.scope = left.scope | right.scope
    res.idcols = (list(left.idcols) + list(right.idcols)) if how == "inner" else []
    # bookkeeping for K03 / K05: the library keeps the constant type of a column across a join
    res.const_cols = set(left.const_cols) | set(right.const_cols)
    res.agg_cols = set(left.agg_cols) | set(right.agg_cols)
    res.visible = list(left.visible) + [(ren[n], c) for n, c in right.visible]
    names = res.names()
    if len(set(names)) != len(names):
        raise RefBug(f"join produced duplicate names {names}")
    return res


def _v_union(env, t, step):
    left = t
    right = env.vars[step["right"]]
    if left.group or right.group:
        raise RefReject("ValueError", "union of grouped table")
    if set(left.names()) != set(right.names()):
        raise RefReject("ValueError", "different column names")
    rv = right.vis()
    for n, c in left.visible:
        fl, fr = left.fam[c], right.fam[rv[n]]
        if fl != fr and "null" not in (fl, fr):
            if {fl, fr} == {"int", "float"}:
                continue  # common type Float
            raise RefReject("TypeError", "incompatible types")
    res = RT()
    res.name = left.name
    res.nodes = left.nodes | right.nodes | {step["out"]}
    res.base_pl = False
    rows = []
    for c_n, c in left.visible:
        pass
    lcols = [left.data[c] for _, c in left.visible]
    rcols = [right.data[rv[n]] for n, _ in left.visible]
    rows = [tuple(col[i] for col in lcols) for i in range(left.n)] + [
        tuple(col[j] for col in rcols) for j in range(right.n)
    ]
    fams_out = []
    for n, c in left.visible:
        fl, fr = left.fam[c], right.fam[rv[n]]
        fams_out.append("float" if {fl, fr} == {"int", "float"} else (fl if fl != "null" else fr))
    rows = [tuple(_tofam(v, f) for v, f in zip(r, fams_out)) for r in rows]
    if step.get("distinct"):
        seen, out = set(), []
        for r in rows:
            k = tuple(_gkey(v) for v in r)
            if k not in seen:
                seen.add(k)
                out.append(r)
        rows = out
    res.n = len(rows)
    for k, (n, c) in enumerate(left.visible):
        fl, fr = left.fam[c], right.fam[rv[n]]
        res.fam[c] = "float" if {fl, fr} == {"int", "float"} else (fl if fl != "null" else fr)
        res.data[c] = [_tofam(r[k], res.fam[c]) for r in rows]
        res.dtype[c] = left.dtype[c]
        res.visible.append((n, c))
        res.scope.add(c)
    return res


def run(case, upto=None) -> Env:
    env = Env(case)
    for k, step in enumerate(case["steps"]):
        if upto is not None and k >= upto:
            break
        apply_step(env, step)
    return env


def result_fam_of(env, t, e):
    """Static family of an expression evaluated against table t (None if it is rejected)."""
    try:
        return Evaluator(env, t, "mutate").rows(e).fam
    except (RefReject, OutOfDomain):
        return None
