"""Frame comparison: names, order, rows (DESIGN §4.7), tolerance (§4.2)."""
from __future__ import annotations

import datetime as dt
import decimal
import math

from .refsem import UNDEF, RT


class Mismatch(Exception):
    def __init__(self, kind, detail):
        super().__init__(f"{kind}: {detail}")
        self.kind = kind
        self.detail = detail


def norm_cell(v):
    if isinstance(v, decimal.Decimal):
        return float(v)
    if isinstance(v, float) and math.isnan(v):
        return "NaN"
    return v


def frame_rows(df):
    """polars DataFrame -> (names, list of tuples)"""
    return list(df.columns), [tuple(norm_cell(v) for v in r) for r in df.rows()]


def cell_eq(a, b, tol_abs, tol_rel):
    if a is UNDEF or b is UNDEF:
        return True
    if a is None or b is None:
        return a is None and b is None
    if isinstance(a, bool) or isinstance(b, bool):
        # SQLite may hand back 0/1 for booleans computed by expressions
        if isinstance(a, bool) and isinstance(b, bool):
            return a == b
        if isinstance(a, (int, float)) and isinstance(b, (int, float)):
            return float(a) == float(b)
        return False
    if isinstance(a, (int, float)) and isinstance(b, (int, float)):
        if isinstance(a, int) and isinstance(b, int):
            return a == b
        fa, fb = float(a), float(b)
        if fa == fb:
            return True
        return abs(fa - fb) <= tol_abs + tol_rel * max(abs(fb), abs(fa))
    if isinstance(a, dt.datetime) and isinstance(b, dt.datetime):
        return a.replace(tzinfo=None) == b.replace(tzinfo=None)
    if type(a) is not type(b):
        if isinstance(a, dt.datetime) and isinstance(b, dt.date):
            return a == dt.datetime(b.year, b.month, b.day)
        if isinstance(b, dt.datetime) and isinstance(a, dt.date):
            return b == dt.datetime(a.year, a.month, a.day)
        return False
    return a == b


def row_eq(r1, r2, tol):
    return len(r1) == len(r2) and all(cell_eq(a, b, *tol) for a, b in zip(r1, r2))


def _sort_key_cell(v):
    if v is UNDEF:
        return (9, 0)
    if v is None:
        return (0, 0)
    if isinstance(v, bool):
        return (1, float(v))
    if isinstance(v, (int, float)):
        return (1, round(float(v), 4))
    if isinstance(v, str):
        return (2, v)
    if isinstance(v, dt.datetime):
        return (3, v.isoformat())
    if isinstance(v, dt.date):
        return (3, v.isoformat() + "T00:00:00")
    return (4, repr(v))


def multiset_eq(rows_a, rows_b, tol):
    """Greedy bipartite matching under tolerance (rows are small)."""
    if len(rows_a) != len(rows_b):
        return False
    has_undef = any(v is UNDEF for r in rows_a for v in r) or any(v is UNDEF for r in rows_b for v in r)
    if not has_undef:
        sa = sorted(rows_a, key=lambda r: tuple(_sort_key_cell(v) for v in r))
        sb = sorted(rows_b, key=lambda r: tuple(_sort_key_cell(v) for v in r))
        if all(row_eq(x, y, tol) for x, y in zip(sa, sb)):
            return True
    # fall back to backtracking-free greedy with retry (tolerance / UNDEF can defeat sorting)
    if len(rows_a) > 400:
        return _greedy(rows_a, rows_b, tol)
    return _match(rows_a, rows_b, tol)


def _greedy(rows_a, rows_b, tol):
    rem = list(rows_b)
    for r in rows_a:
        for k, s in enumerate(rem):
            if row_eq(r, s, tol):
                del rem[k]
                break
        else:
            return False
    return True


def _match(rows_a, rows_b, tol):
    # Hopcroft-Karp is overkill; simple augmenting paths
    n = len(rows_a)
    adj = [[j for j in range(n) if row_eq(rows_a[i], rows_b[j], tol)] for i in range(n)]
    match_b = [-1] * n

    def aug(i, seen):
        for j in adj[i]:
            if j in seen:
                continue
            seen.add(j)
            if match_b[j] == -1 or aug(match_b[j], seen):
                match_b[j] = i
                return True
        return False

    import sys

    sys.setrecursionlimit(max(sys.getrecursionlimit(), 10000))
    return all(aug(i, set()) for i in range(n))


TOL_PL = (1e-12, 1e-9)
TOL_SQL = (1e-6, 1e-9)


def expected_of(t: RT):
    names = t.names()
    rows = t.rows_visible()
    return names, rows


def compare_ref(t: RT, df, *, view: str, tol=None):
    """Compare a reference table with an exported frame.  view: 'polars' | 'sql'."""
    tol = tol or (TOL_PL if view == "polars" else TOL_SQL)
    names, rows = expected_of(t)
    got_names, got_rows = frame_rows(df)
    if got_names != names:
        raise Mismatch("names", f"expected {names} got {got_names}")
    # no source column of the generated tables is a Decimal: a Decimal column in the result is a float that went
    # through a NUMERIC result type (python Decimal, ten digits)
    dec_cols = [n for n, d in df.schema.items() if d.is_decimal()]
    if dec_cols:
        raise Mismatch("dtype", f"columns {dec_cols} are exported as Decimal {[str(df.schema[n]) for n in dec_cols]}")
    if len(got_rows) != len(rows):
        raise Mismatch("height", f"expected {len(rows)} rows got {len(got_rows)}")
    if view == "polars":
        nkeys, exact = len(t.okeys), t.base_pl
    else:
        nkeys, exact = t.n_sql, False
    if exact:
        for k, (a, b) in enumerate(zip(rows, got_rows)):
            if not row_eq(a, b, tol):
                raise Mismatch("rows", f"row {k}: expected {a} got {b}")
        return "sequence"
    if nkeys == 0:
        if not multiset_eq(rows, got_rows, tol):
            raise Mismatch("rows", f"multisets differ: expected {rows[:6]}.. got {got_rows[:6]}..")
        return "multiset"
    # sequence modulo ties
    keys = [tuple(g[i] for g in t.okeys[:nkeys]) for i in range(t.n)]
    i = 0
    while i < t.n:
        j = i
        while j < t.n and keys[j] == keys[i]:
            j += 1
        if not multiset_eq(rows[i:j], got_rows[i:j], tol):
            raise Mismatch("order", f"rows {i}..{j - 1}: expected {rows[i:j][:4]} got {got_rows[i:j][:4]}")
        i = j
    return "ties"


def compare_frames(df_a, df_b, *, order, t: RT | None = None, tol=TOL_SQL):
    """Differential comparison of two frames. order: 'multiset' | ('ties', RT) handled by caller via t."""
    na, ra = frame_rows(df_a)
    nb, rb = frame_rows(df_b)
    if na != nb:
        raise Mismatch("names", f"{na} vs {nb}")
    if len(ra) != len(rb):
        raise Mismatch("height", f"{len(ra)} vs {len(rb)}")
    if order == "multiset":
        if not multiset_eq(ra, rb, tol):
            raise Mismatch("rows", f"multisets differ: {ra[:6]} vs {rb[:6]}")
        return
    if order == "sequence":
        for k, (a, b) in enumerate(zip(ra, rb)):
            if not row_eq(a, b, tol):
                raise Mismatch("rows", f"row {k}: {a} vs {b}")
        return
    raise ValueError(order)


def dtype_family(pl_dtype) -> str:
    import polars as pl

    if pl_dtype.is_integer():
        return "int"
    if pl_dtype.is_float() or pl_dtype.is_decimal():
        return "float"
    if pl_dtype == pl.Boolean:
        return "bool"
    if pl_dtype == pl.String:
        return "str"
    if pl_dtype == pl.Date:
        return "date"
    if isinstance(pl_dtype, pl.Datetime) or pl_dtype == pl.Datetime:
        return "datetime"
    if pl_dtype == pl.Null:
        return "null"
    return str(pl_dtype)
