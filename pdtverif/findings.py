"""Known-findings registry: matchers over the case IR (DESIGN §7).

A generated failure is attributed to a listed finding only if (a) its signature matches
the finding's `signature` regex and (b) the finding's matcher holds on the case IR.
The JSON file is never written at run time."""
from __future__ import annotations

import re

from . import ir

MATCHERS = {}


def matcher(name):
    def deco(f):
        MATCHERS[name] = f
        return f

    return deco


def matches(kf, cid, case, fj) -> bool:
    sig = f"{fj['kind']}|{fj['key']}"
    if not re.search(kf["signature"], sig):
        return False
    m = MATCHERS.get(kf.get("matcher", "always"))
    if m is None:
        return False
    try:
        return bool(m(case, fj))
    except Exception:
        return False


@matcher("always")
def _always(case, fj):
    return True


def steps_of(case):
    return case.get("steps", [])


def lineage(case, var):
    """Steps (in order) on the path from sources to `var` following `in` (and right operands)."""
    by_out = {s["out"]: s for s in steps_of(case)}
    seen, order = set(), []

    def visit(v):
        if v in seen or v not in by_out:
            return
        seen.add(v)
        s = by_out[v]
        if "in" in s:
            visit(s["in"])
        if "right" in s:
            visit(s["right"])
        if "ref" in s:
            visit(s["ref"])
        order.append(s)

    visit(var)
    return order


def chain(case, var):
    """Linear chain of steps from the source to var following only `in`."""
    by_out = {s["out"]: s for s in steps_of(case)}
    out = []
    while var in by_out:
        s = by_out[var]
        out.append(s)
        var = s.get("in")
    return list(reversed(out))


def step_has_ftype(step, names):
    return any(ir.has_op(e, names) for e in ir.step_exprs(step))


COMPUTING = ("mutate", "summarize")


# Operators whose result is null as soon as one column argument is null.  A column computed from such operators only
# is null for the padded rows of an outer join no matter whether SQL evaluates it before or after the join.
STRICT_OPS = {
    "add", "sub", "mul", "truediv", "floordiv", "mod", "pow", "neg", "pos", "abs", "round", "floor", "ceil",
    "eq", "ne", "lt", "le", "gt", "ge", "invert", "xor", "clip",
    "exp", "log", "sqrt", "sin", "cos", "tan", "atan", "log10", "cbrt", "asin", "acos",
    "str.contains", "str.ends_with", "str.starts_with", "str.len", "str.lower", "str.upper", "str.strip",
    "str.replace_all", "str.slice",
    "dt.year", "dt.month", "dt.day", "dt.hour", "dt.minute", "dt.second", "dt.day_of_week", "dt.day_of_year",
    "dt.millisecond", "dt.microsecond",
}


def expr_null_strict(e):
    """True if the expression is literal-only (the library wraps such columns in a subquery itself) or built from
    null-propagating operators only."""
    nodes = list(ir.walk_expr(e))
    if not any(nd[0] == "col" for nd in nodes):
        return True
    for nd in nodes:
        if nd[0] in ("case", "map", "shared", "marker"):
            return False
        if nd[0] == "fn" and (nd[1] not in STRICT_OPS or (len(nd) > 3 and nd[3])):
            return False
    return True


def side_has_computed(case, var):
    """Does the lineage of `var` compute a column that is not null-propagating (K01): a summarize, or a mutate item
    using fill_null / coalesce / is_null / when / and / or / horizontal or window / aggregate functions ...?"""
    for s in lineage(case, var):
        if s["verb"] == "summarize":
            return True
        if s["verb"] == "mutate" and not all(expr_null_strict(e) for _, e in s["items"]):
            return True
    return False


def outer_join_computed(case):
    """Shape of K01: a left/full join whose null-padded side carries computed columns."""
    for s in steps_of(case):
        if s["verb"] == "join" and s.get("how") in ("left", "full") and not s.get("cross"):
            if side_has_computed(case, s["right"]):
                return True
            if s["how"] == "full" and side_has_computed(case, s["in"]):
                return True
    return False


@matcher("outer_join_computed_side")
def _m_k01(case, fj):
    return outer_join_computed(case)


def ungrouped_summarize_then_deselect(case):
    """Shape of K03: an ungrouped summarize whose columns may all be deselected later."""
    for s in steps_of(case):
        if s["verb"] != "summarize":
            continue
        grouped = False
        for p in chain(case, s["in"]):
            if p["verb"] == "group_by":
                grouped = True
            elif p["verb"] in ("ungroup", "summarize"):
                grouped = False
            elif p["verb"] == "collect" and not p.get("keep", True):
                grouped = False
        if grouped:
            continue
        names = {n for n, _ in s["items"]}
        later = False
        seen = False
        for p in steps_of(case):
            if p is s:
                seen = True
                continue
            if seen and p["verb"] in ("select", "drop", "mutate", "summarize"):
                later = True
        if later:
            return True
    return False


def _ref_tables(case):
    """Reference tables per step output (None if the reference cannot run the case)."""
    from . import refsem

    try:
        env = refsem.run({k: v for k, v in case.items() if k in ("tables", "steps", "result")})
    except Exception:  # noqa: BLE001 - no attribution without the reference
        return None
    return env.vars


@matcher("ungrouped_summarize_deselected")
def _m_k03(case, fj):
    """K03: some table of the history has the columns of an ungrouped summarize in scope but none of them selected."""
    if not ungrouped_summarize_then_deselect(case):
        return False
    vars_ = _ref_tables(case)
    if vars_ is None:
        return False
    for t in vars_.values():
        if t.agg_cols and not any(c in t.agg_cols for _, c in t.visible):
            return True
    return False


def const_item_names(case):
    """Names of columns defined by literal-only expressions, per defining step output."""
    out = {}
    for s in steps_of(case):
        if s["verb"] == "mutate":
            for n, e in s["items"]:
                refs = [nd[1].get("c", nd[1].get("n")) for nd in ir.walk_expr(e) if nd[0] == "col"]
                if all(r in out for r in refs) and not ir.has_op(e, ir.AGG_OPS | ir.WIN_OPS):
                    out.setdefault(n, []).append(s["out"])
    return out


def group_by_constant(case):
    """Shape of K05: a group_by followed by summarize where a grouping column is a constant column."""
    consts = const_item_names(case)
    if not consts:
        return False
    for s in steps_of(case):
        if s["verb"] == "group_by":
            for ref in s["cols"]:
                name = ref.get("c", ref.get("n"))
                if name in consts:
                    return True
    return False


@matcher("group_by_constant")
def _m_k05(case, fj):
    """K05: a table of the history is grouped by a column that is defined by a literal-only expression."""
    if not group_by_constant(case):
        return False
    vars_ = _ref_tables(case)
    if vars_ is None:
        return False
    by_out = {s["out"]: s for s in steps_of(case)}
    for v, t in vars_.items():
        s = by_out.get(v)
        if s is None or s["verb"] != "group_by":
            continue
        src = vars_.get(s["in"])
        if any(c in t.const_cols or (src is not None and c in src.const_cols) for c in t.group):
            return True
    return False


@matcher("uint64_column")
def _m_k06(case, fj):
    return any(d == "uint64" for t in case.get("tables", []) for _, d in t["cols"])


@matcher("const_column_as_const_param")
def _m_k07(case, fj):
    """K07: the distance of `shift` / the digits of `round` given as a column reference instead of a python value."""
    for st_ in steps_of(case):
        for e in ir.step_exprs(st_):
            for nd in ir.walk_expr(e):
                if nd[0] == "fn" and nd[1] in ("shift", "round") and len(nd[2]) > 1 and nd[2][1][0] != "lit":
                    return True
    return False
