"""Known-findings registry: matchers over the case IR (DESIGN §7).

A generated failure is attributed to a listed finding only if (a) its signature matches
the finding's `signature` regex and (b) the finding's matcher holds on the case IR.
The JSON file is never written at run time."""
from __future__ import annotations

import re

from . import ir

MATCHERS = {}


def matcher(name):
    def deco(f):
        MATCHERS[name] = f
        return f

    return deco


def matches(kf, cid, case, fj) -> bool:
    sig = f"{fj['kind']}|{fj['key']}"
    if not re.search(kf["signature"], sig):
        return False
    m = MATCHERS.get(kf.get("matcher", "always"))
    if m is None:
        return False
    try:
        return bool(m(case, fj))
    except Exception:
        return False


@matcher("always")
def _always(case, fj):
    return True


def steps_of(case):
    return case.get("steps", [])


def lineage(case, var):
    """Steps (in order) on the path from sources to `var` following `in` (and right operands)."""
    by_out = {s["out"]: s for s in steps_of(case)}
    seen, order = set(), []

    def visit(v):
        if v in seen or v not in by_out:
            return
        seen.add(v)
        s = by_out[v]
        if "in" in s:
            visit(s["in"])
        if "right" in s:
            visit(s["right"])
        if "ref" in s:
            visit(s["ref"])
        order.append(s)

    visit(var)
    return order


def chain(case, var):
    """Linear chain of steps from the source to var following only `in`."""
    by_out = {s["out"]: s for s in steps_of(case)}
    out = []
    while var in by_out:
        s = by_out[var]
        out.append(s)
        var = s.get("in")
    return list(reversed(out))


def step_has_ftype(step, names):
    return any(ir.has_op(e, names) for e in ir.step_exprs(step))
