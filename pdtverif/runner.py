"""Shared driver: sharded Hypothesis runs, failure collection / bucketing, known findings,
reduction, evidence files, exit codes (DESIGN §2)."""
from __future__ import annotations

import hashlib
import json
import multiprocessing as mp
import os
import sys
import time
import traceback

from . import env as _env
from . import ir

VERIF = _env.VERIF


class Failure:
    """One oracle failure for one case."""

    def __init__(self, kind, key, message, extra=None):
        self.kind = kind  # e.g. 'mismatch', 'internal-error', 'wrong-exception'
        self.key = key  # coarse bucket key (verb/operator/exception type)
        self.message = message
        self.extra = extra or {}

    def sig(self):
        return f"{self.kind}|{self.key}"

    def to_json(self):
        return {"kind": self.kind, "key": self.key, "message": self.message[:2000], "extra": self.extra}


class Outcome:
    def __init__(self):
        self.failures = []
        self.nontrivial = False
        self.classes = []
        self.discard = None  # reason string when the case is outside the domain
        self.counters = {}

    def fail(self, kind, key, message, **extra):
        self.failures.append(Failure(kind, key, message, extra))

    def count(self, name, k=1):
        self.counters[name] = self.counters.get(name, 0) + k


class ShardStats:
    def __init__(self):
        self.evaluations = 0
        self.nontrivial_hashes = set()
        self.classes = {}
        self.counters = {}
        self.discards = {}
        self.samples = []
        self.failures = []  # [(sig, case, failure_json)]
        self.harness_errors = []
        self.seeds = []
        self.exhaustive = None

    def add(self, case, out: Outcome, sample_cap=6):
        self.evaluations += 1
        for c in out.classes:
            self.classes[c] = self.classes.get(c, 0) + 1
        for k, v in out.counters.items():
            self.counters[k] = self.counters.get(k, 0) + v
        if out.discard:
            self.discards[out.discard] = self.discards.get(out.discard, 0) + 1
        if out.nontrivial:
            h = ir.chash(strip_meta(case))
            if h not in self.nontrivial_hashes:
                self.nontrivial_hashes.add(h)
                if len(self.samples) < sample_cap:
                    self.samples.append(strip_meta(case))
        for f in out.failures:
            if len(self.failures) < 400:
                self.failures.append((f.sig(), strip_meta(case), f.to_json()))

    def merge(self, other: "ShardStats"):
        self.evaluations += other.evaluations
        self.nontrivial_hashes |= other.nontrivial_hashes
        for d_self, d_other in ((self.classes, other.classes), (self.counters, other.counters),
                                (self.discards, other.discards)):
            for k, v in d_other.items():
                d_self[k] = d_self.get(k, 0) + v
        for s in other.samples:
            if len(self.samples) < 8:
                self.samples.append(s)
        self.failures += other.failures
        self.harness_errors += other.harness_errors
        self.seeds += other.seeds


def strip_meta(case):
    if isinstance(case, dict):
        return {k: v for k, v in case.items() if not k.startswith("_")}
    return case


def shard_seed(base: int, check_id: str, shard: int) -> int:
    h = hashlib.sha256(f"{base}:{check_id}:{shard}".encode()).digest()
    return int.from_bytes(h[:6], "big")


CASE_TIMEOUT_S = 30


class CaseTimeout(BaseException):
    pass


class case_timeout:
    """Wall-clock bound for one case (main thread only; no-op elsewhere)."""

    def __init__(self, seconds):
        self.seconds = seconds
        self.armed = False

    def __enter__(self):
        import signal
        import threading

        if threading.current_thread() is threading.main_thread():
            def handler(signum, frame):
                raise CaseTimeout()

            self.old = signal.signal(signal.SIGALRM, handler)
            signal.setitimer(signal.ITIMER_REAL, self.seconds)
            self.armed = True
        return self

    def __exit__(self, *exc):
        import signal

        if self.armed:
            signal.setitimer(signal.ITIMER_REAL, 0)
            signal.signal(signal.SIGALRM, self.old)
        return False


def run_hypothesis(strategy, examine, n_examples, seed_value, stats: ShardStats, time_budget=None):
    """Drive `examine(case) -> Outcome` with Hypothesis; failures are collected, not raised."""
    import hypothesis
    from hypothesis import HealthCheck, Phase, given, settings

    t0 = time.time()

    class _Stop(Exception):
        pass

    @hypothesis.seed(seed_value)
    @settings(
        max_examples=n_examples,
        database=None,
        deadline=None,
        derandomize=False,
        report_multiple_bugs=False,
        phases=[Phase.generate],
        suppress_health_check=[HealthCheck.too_slow, HealthCheck.data_too_large, HealthCheck.filter_too_much,
                               HealthCheck.large_base_example],
    )
    @given(strategy)
    def test(case):
        if time_budget is not None and time.time() - t0 > time_budget:
            return
        try:
            with case_timeout(CASE_TIMEOUT_S):
                out = examine(case)
        except CaseTimeout:
            # a time budget that runs out is inconclusive, never a violation
            stats.counters["case_timeout_inconclusive"] = stats.counters.get("case_timeout_inconclusive", 0) + 1
            return
        stats.add(case, out)

    stats.seeds.append(seed_value)
    test()


def _shard_entry(args):
    check_id, tier, shard, nshards, base_seed, extra = args
    os.environ.setdefault("PYTHONHASHSEED", "0")
    _env.quiet()
    _env.assert_tree()
    stats = ShardStats()
    try:
        from . import checks

        chk = checks.load(check_id)
        chk.run_shard(tier, shard, nshards, shard_seed(base_seed, check_id, shard), stats, extra)
    except Exception:  # harness problem inside a worker
        stats.harness_errors.append(traceback.format_exc())
    return stats


def run_sharded(check_id, tier, nshards, base_seed, extra=None) -> ShardStats:
    args = [(check_id, tier, s, nshards, base_seed, extra) for s in range(nshards)]
    total = ShardStats()
    if nshards == 1:
        total.merge(_shard_entry(args[0]))
        return total
    # spawn, not fork: the parent has already executed Polars (replay tier) and a forked child
    # would inherit its thread pool in a locked state
    ctx = mp.get_context("spawn")
    from concurrent.futures import ProcessPoolExecutor, as_completed
    from concurrent.futures.process import BrokenProcessPool

    crashed = 0
    with ProcessPoolExecutor(max_workers=min(nshards, os.cpu_count() or 1), mp_context=ctx) as ex:
        futs = {ex.submit(_shard_entry, a): a for a in args}
        try:
            for f in as_completed(futs):
                try:
                    total.merge(f.result())
                except BrokenProcessPool:
                    crashed += 1
        except BrokenProcessPool:
            crashed += 1
    if crashed:
        # an engine crash (segfault / abort) takes the worker down: its cases are lost, which makes
        # the run smaller, not wrong.  More than half of the shards lost is a harness error.
        total.counters["crashed_shards"] = crashed
        if crashed * 2 > nshards:
            total.harness_errors.append(f"{crashed} of {nshards} worker processes crashed")
    return total


# ---- known findings ---------------------------------------------------------------------


def load_findings():
    p = os.path.join(VERIF, "known_findings.json")
    if not os.path.exists(p):
        return []
    with open(p) as f:
        return json.load(f)["findings"]


def write_json(path, obj):
    os.makedirs(os.path.dirname(path), exist_ok=True)
    tmp = path + ".tmp"
    with open(tmp, "w") as f:
        json.dump(obj, f, indent=1, sort_keys=True, default=str)
        f.write("\n")
    os.replace(tmp, path)


def finish(check, tier, base_seed, stats: ShardStats, t0, *, replay_results=None, extra_cov=None, assumptions=None):
    """Bucket failures, match known findings, reduce the rest, write evidence, return exit code."""
    from . import findings as fmod
    from . import reduce as rmod

    cid = check.ID
    if stats.harness_errors:
        for e in stats.harness_errors[:3]:
            print("HARNESS-ERROR", e, file=sys.stderr)
        print(f"HARNESS-ERROR property={cid} ({len(stats.harness_errors)} worker errors)")
        return 2

    known = [f for f in load_findings() if f["property"] == cid and f.get("status") == "open"]
    buckets = {}
    for sig, case, fj in stats.failures:
        buckets.setdefault(sig, []).append((case, fj))

    known_hits = {}
    violations = []
    for sig, items in sorted(buckets.items()):
        rest = []
        for case, fj in items:
            hit = None
            for kf in known:
                if fmod.matches(kf, cid, case, fj):
                    hit = kf["id"]
                    break
            if hit:
                known_hits[hit] = known_hits.get(hit, 0) + 1
            else:
                rest.append((case, fj))
        if rest:
            violations.append((sig, rest))

    out_root = os.environ.get("PDTVERIF_OUT", VERIF)  # scratch output root for runs against seeded changes
    replay_dir = os.path.join(out_root, "replays")
    n_viol = 0
    budget = 25 if tier == "quick" else 240
    for sig, rest in violations:
        rest.sort(key=lambda cf: len(ir.dumps(cf[0])))
        case, fj = rest[0]
        try:
            small = rmod.reduce_case(check, case, sig, budget)
        except Exception:  # reduction is best effort
            small = case
        h = ir.chash({"sig": sig, "case": small})
        path = os.path.join(replay_dir, f"{cid}-{h}.json")
        rec = {"property": cid, "signature": sig, "failure": fj, "case": small, "count": len(rest)}
        if small != case:
            rec["unreduced_case"] = case  # the generated case the reduction started from (triage aid)
        write_json(path, rec)
        print(f"VIOLATION property={cid} replay={path}")
        print(f"  signature: {sig}  ({len(rest)} cases)  {fj['message'][:300]}")
        n_viol += 1

    # known findings: replay witnesses first (done by caller in replay_results), report
    for kf in known:
        st = (replay_results or {}).get(kf["id"])
        if st == "fails":
            print(f"KNOWN-FINDING: property={cid} {kf['id']}: {kf['what']}")
        elif st == "passes":
            # the witness no longer fails: not an alarm, but say so
            print(f"NOTE property={cid} known finding {kf['id']} no longer reproduces on this tree")

    cov = {
        "evaluations": stats.evaluations,
        "distinct_nontrivial": len(stats.nontrivial_hashes),
        "rule": check.RULE,
        "samples": stats.samples[:8],
        "classes": dict(sorted(stats.classes.items())),
        "counters": dict(sorted(stats.counters.items())),
        "discarded_out_of_domain": dict(sorted(stats.discards.items())),
        "known_finding_hits": known_hits,
        "failure_buckets": {sig: len(items) for sig, items in buckets.items()},
        "shard_seeds": stats.seeds[:32],
    }
    if extra_cov:
        cov.update(extra_cov)
    if replay_results is not None:
        cov["replay_tier"] = replay_results
    ev = {
        "property_id": cid,
        "tier": tier,
        "seed": base_seed,
        "level": "exploration",
        "coverage": cov,
        "assumptions": (assumptions or []) + check.ASSUMPTIONS,
        "wall_s": round(time.time() - t0, 2),
        "violations": n_viol,
    }
    write_json(os.path.join(out_root, "evidence", f"{cid}.json"), ev)
    print(f"{cid} tier={tier} seed={base_seed} evaluations={stats.evaluations} "
          f"distinct_nontrivial={len(stats.nontrivial_hashes)} violations={n_viol} "
          f"known_hits={sum(known_hits.values())} wall={ev['wall_s']}s")
    return 1 if n_viol else 0
