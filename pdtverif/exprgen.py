"""Typed expression strategies over a live reference scope (DESIGN §3)."""
from __future__ import annotations

from hypothesis import strategies as st

from . import data
from .ir import AGG_OPS, WIN_OPS, enc, walk_expr
from .refsem import UNDEF, Evaluator, OutOfDomain, RefReject

FAMS = ("int", "float", "bool", "str", "date", "datetime")


class Scope:
    """What an expression evaluated against table `t` may reference."""

    def __init__(self, env, t, *, captures=True, c_refs=True, only_vars=None):
        self.env = env
        self.t = t
        self.by_fam = {f: [] for f in FAMS}
        self.by_fam["null"] = []
        self.vis_refs = []  # (ref, cid, fam) usable where a *visible* column is required
        vis_cids = {c for _, c in t.visible}
        if c_refs:
            for n, c in t.visible:
                self.by_fam[t.fam[c]].append(({"c": n}, c))
                self.vis_refs.append(({"c": n}, c, t.fam[c]))
        self.capt = []
        if captures:
            for var, src in env.vars.items():
                if only_vars is not None and var not in only_vars:
                    continue
                if "~" in var:
                    continue
                for n, c in src.visible:
                    # (a union changes the type of a column: a reference taken where the column has another type
                    # would type-check its expression with that type, DESIGN 4.14)
                    if c in t.scope and src.fam.get(c) == t.fam.get(c):
                        ref = {"v": var, "n": n}
                        self.by_fam[t.fam[c]].append((ref, c))
                        self.capt.append((ref, c))
                        if c in vis_cids:
                            self.vis_refs.append((ref, c, t.fam[c]))
        self.id_refs = []
        for c in getattr(t, "idcols", []):
            if c in t.scope:
                for ref, cc in self.by_fam["int"]:
                    if cc == c:
                        self.id_refs.append(ref)
                        break
        self.group = set(t.group)

    def fams_available(self):
        return [f for f in FAMS if self.by_fam[f]]


class Cfg:
    def __init__(self, **kw):
        self.max_depth = 3
        self.strings = True
        self.dates = True
        self.casts = True
        self.case = True
        self.plain_str = False
        self.win_no_arrange = False  # polars-only checks may use the frame order
        self.filter_kw = True
        self.null_lits = True
        self.mixed_numeric = True  # integer arguments / branches inside Float-typed coalesce, fill_null, min/max, CASE
        self.str_join = True  # the ordered aggregate str.join (Polars only in this sandbox)
        self.math = False
        self.isin_empty = False  # x.is_in() without values (broadcast literal; see C03)
        self.count_star_filter = True
        self.__dict__.update(kw)


def lit_of(draw, fam, cfg, typed_ok=True):
    if typed_ok and cfg.null_lits and draw(st.integers(0, 24)) == 0:
        return ["lit", None, data.SRC_DTYPE[fam]]  # a typed null literal: lit(None, Float64()) ...
    if fam == "str":
        v = draw(data.strs(False, plain=cfg.plain_str))
    else:
        v = draw(data.value_of(fam))
    if typed_ok and fam in ("int", "float") and draw(st.integers(0, 9)) == 0:
        return ["lit", enc(v), "int64" if fam == "int" else "float64"]
    return ["lit", enc(v)]


def json_key(ref):
    return tuple(sorted(ref.items()))


NARY = [1, 2, 2, 3, 3, 4, 5, 6]  # argument counts of n-ary operators (SQLite splits >= 4 recursively)


class ExprGen:
    def __init__(self, draw, scope: Scope, cfg: Cfg):
        self.draw = draw
        self.s = scope
        self.cfg = cfg

    def pick(self, xs):
        xs = list(xs)
        if not xs:
            from .pipegen import GenSkip

            raise GenSkip()
        return self.draw(st.sampled_from(xs))

    def chance(self, num, den=10):
        return self.draw(st.integers(0, den - 1)) < num

    # ---- leaves ----
    def leaf(self, fam, leaves_ok=True, group_only=False):
        cands = self.s.by_fam.get(fam, [])
        if group_only:
            cands = [(r, c) for r, c in cands if c in self.s.group]
        if leaves_ok and cands and self.chance(8):
            ref, _ = self.pick(cands)
            return ["col", ref]
        if group_only and not cands:
            return None
        return lit_of(self.draw, fam, self.cfg)

    # ---- element-wise ----
    def gen(self, fam, depth, *, agg=False, win=False, summ=False):
        """Expression of family `fam`.
        agg/win: an aggregate / window function may be placed at or below this node.
        summ: summarize context: leaves must be grouping columns or sit below an aggregate."""
        d = self.draw
        if depth <= 0 or self.chance(2):
            if summ:
                lf = self.leaf(fam, group_only=True) if self.chance(4) else None
                if lf is not None:
                    return lf
                return self.aggregate(fam, 1)
            return self.leaf(fam)
        if summ and self.chance(5):
            return self.aggregate(fam, depth)
        if agg and self.chance(3):
            return self.aggregate(fam, depth)
        if win and self.chance(3):
            w = self.window(fam, depth)
            if w is not None:
                return w
        kw = dict(agg=agg, win=win, summ=summ)
        g = lambda f, dd=depth - 1: self.gen(f, dd, **kw)  # noqa: E731
        cfg = self.cfg
        opts = []
        if fam == "int":
            opts = ["arith", "arith", "divmod", "neg", "abs", "fill", "coalesce", "hminmax", "hsum", "clip"]
            if cfg.case:
                opts += ["case", "map"]
            if cfg.strings:
                opts += ["strlen"]
            if cfg.dates:
                opts += ["dtpart"]
            if cfg.casts:
                opts += ["cast_b2i", "cast_f2i", "boolsum"]
            opts += ["round"]
        elif fam == "float":
            opts = ["arith", "arith", "truediv", "neg", "abs", "fill", "coalesce", "hminmax", "hsum", "clip",
                    "floorceil", "round", "mixed"]
            if cfg.case:
                opts += ["case"]
            if cfg.casts:
                opts += ["cast_i2f"]
            opts += ["pow"]
            if cfg.math:
                opts += ["math"]
        elif fam == "bool":
            opts = ["cmp", "cmp", "cmp", "logic", "logic", "not", "isnull", "isin", "hanyall", "fill", "eqne"]
            if cfg.strings:
                opts += ["strpred"]
            if cfg.case:
                opts += ["case"]
        elif fam == "str":
            opts = ["concat", "strfn", "strfn", "fill", "coalesce", "hminmax", "replace", "slice"]
            if cfg.case:
                opts += ["case", "map"]
            if cfg.casts:
                opts += ["cast_i2s"]
        elif fam in ("date", "datetime"):
            opts = ["fill", "coalesce", "hminmax", "clipd"]
            if cfg.case:
                opts += ["case"]
            if cfg.casts:
                opts += ["cast_dd"]
        o = self.pick(opts)
        if o == "arith":
            return ["fn", self.pick(["add", "sub", "mul"]), [g(fam), g(fam)], {}]
        if o == "mixed":
            return ["fn", self.pick(["add", "sub", "mul"]), [g("float"), g("int")] if self.chance(5) else [g("int"), g("float")], {}]
        if o == "divmod":
            div = ["lit", self.pick([1, 2, 3, 7, -2, -7, 10])] if self.chance(7) else g("int")
            return ["fn", self.pick(["floordiv", "mod"]), [g("int"), div], {}]
        if o == "truediv":
            f2 = self.pick(["int", "float"])
            div = ["lit", self.pick([2, 4, -8, 16])] if f2 == "int" else ["lit", self.pick([0.5, 2.0, -4.0, 0.25])]
            if self.chance(3):
                div = g(f2)
            return ["fn", "truediv", [g(f2), div], {}]
        if o == "pow":
            if self.chance(5):
                return ["fn", "pow", [g("int"), ["lit", self.pick([0, 1, 2, 3])]], {}]
            return ["fn", "pow", [g("float"), ["lit", self.pick([0.0, 1.0, 2.0, 3.0])]], {}]
        if o == "neg":
            return ["fn", self.pick(["neg", "pos"]), [g(fam)], {}]
        if o == "abs":
            return ["fn", "abs", [g(fam)], {}]
        # a Float-typed n-ary call / CASE may have integer arguments as well (the common type is Float)
        gm = (lambda: g("int") if self.chance(3) else g(fam)) if (fam == "float" and cfg.mixed_numeric) else (lambda: g(fam))
        if o == "fill":
            return ["fn", "fill_null", [gm(), gm()], {}]
        if o == "coalesce":
            k = d(st.sampled_from(NARY))
            args = [gm() for _ in range(k)]
            if cfg.null_lits and self.chance(2):
                args.insert(d(st.integers(1, len(args))), ["lit", None])
            return ["fn", "coalesce", args, {}]
        if o == "hminmax":
            k = d(st.sampled_from(NARY))
            return ["fn", self.pick(["hmax", "hmin"]), [gm() for _ in range(k)], {}]
        if o == "hsum":
            k = d(st.sampled_from(NARY))
            return ["fn", "hsum", [g(fam) for _ in range(k)], {}]
        if o == "clip":
            lo, hi = sorted([d(data.value_of(fam)), d(data.value_of(fam))])
            if fam == "float" and cfg.mixed_numeric and self.chance(4):
                # an integer expression and / or one integer bound: the common type is still Float
                import math

                which = self.pick(["lo", "hi", "x"])
                if which == "lo":
                    lo = int(math.floor(lo))
                elif which == "hi":
                    hi = int(math.ceil(hi))
                x = g("int") if (which == "x" or self.chance(5)) else g(fam)
                return ["fn", "clip", [x, ["lit", enc(lo)], ["lit", enc(hi)]], {}]
            return ["fn", "clip", [g(fam), ["lit", enc(lo)], ["lit", enc(hi)]], {}]
        if o == "clipd":
            lo, hi = sorted([d(data.value_of(fam)), d(data.value_of(fam))])
            return ["fn", "clip", [g(fam), ["lit", enc(lo)], ["lit", enc(hi)]], {}]
        if o == "round":
            if fam == "int":
                return ["fn", "round", [g("int"), ["lit", d(st.integers(-2, 2))]], {}]
            return ["fn", "round", [g("float"), ["lit", d(st.integers(-1, 3))]], {}]
        if o == "floorceil":
            return ["fn", self.pick(["floor", "ceil"]), [g("float")], {}]
        if o == "math":
            return ["fn", self.pick(["exp", "log", "sqrt", "sin", "cos", "atan"]), [g("float")], {}]
        if o == "strlen":
            return ["fn", "str.len", [g("str")], {}]
        if o == "dtpart":
            f2 = self.pick(["date", "datetime"])
            parts = ["dt.year", "dt.month", "dt.day", "dt.day_of_week", "dt.day_of_year"]
            if f2 == "datetime":
                parts += ["dt.hour", "dt.minute", "dt.second"]
            return ["fn", self.pick(parts), [g(f2)], {}]
        if o == "cast_b2i":
            return ["cast", g("bool"), "int64"]
        if o == "cast_f2i":
            return ["cast", g("float"), "int64"]
        if o == "cast_i2f":
            return ["cast", g("int"), "float64"]
        if o == "cast_i2s":
            return ["cast", g("int"), "str"]
        if o == "cast_dd":
            return ["cast", g("datetime" if fam == "date" else "date"), fam]
        if o == "boolsum":
            return ["fn", "add", [g("bool"), g("bool")], {}]
        if o == "cmp":
            f2 = self.pick(self.s.fams_available() or ["int"])
            if f2 == "float" and self.chance(3):
                return ["fn", self.pick(["lt", "le", "gt", "ge"]), [g("float"), g("int")], {}]
            return ["fn", self.pick(["lt", "le", "gt", "ge"]), [g(f2), g(f2)], {}]
        if o == "eqne":
            f2 = self.pick(self.s.fams_available() or ["int"])
            return ["fn", self.pick(["eq", "ne"]), [g(f2), g(f2)], {}]
        if o == "logic":
            return ["fn", self.pick(["and", "or", "xor"]), [g("bool"), g("bool")], {}]
        if o == "not":
            return ["fn", "invert", [g("bool")], {}]
        if o == "isnull":
            f2 = self.pick(self.s.fams_available() or ["int"])
            return ["fn", self.pick(["is_null", "is_not_null"]), [g(f2)], {}]
        if o == "isin":
            f2 = self.pick([f for f in (self.s.fams_available() or ["int"]) if f != "bool"] or ["int"])
            k = d(st.integers(0 if cfg.isin_empty else 1, 3))
            vals = [lit_of(d, f2, cfg, typed_ok=False) if self.chance(7) else g(f2, 0) for _ in range(k)]
            if cfg.null_lits and self.chance(2):
                vals.append(["lit", None])
            return ["fn", "is_in", [g(f2)] + vals, {}]
        if o == "hanyall":
            k = d(st.sampled_from(NARY))
            return ["fn", self.pick(["hany", "hall"]), [g("bool") for _ in range(k)], {}]
        if o == "strpred":
            pat = ["lit", d(data.strs(False, plain=cfg.plain_str))[:3]]
            return ["fn", self.pick(["str.starts_with", "str.ends_with", "str.contains"]), [g("str"), pat], {}]
        if o == "concat":
            return ["fn", "add", [g("str"), g("str")], {}]
        if o == "strfn":
            return ["fn", self.pick(["str.upper", "str.lower", "str.strip"]), [g("str")], {}]
        if o == "replace":
            a = d(data.strs(False, plain=cfg.plain_str))[:2] or "a"
            b = d(data.strs(False, plain=cfg.plain_str))[:2]
            return ["fn", "str.replace_all", [g("str"), ["lit", a], ["lit", b]], {}]
        if o == "slice":
            return ["fn", "str.slice", [g("str"), ["lit", d(st.integers(0, 4))], ["lit", d(st.integers(0, 4))]], {}]
        if o == "case":
            k = d(st.sampled_from(NARY))
            branches = [[self._cond(g), self._branch_val(fam, g)] for _ in range(k)]
            dflt = None
            if self.chance(6):
                dflt = self._branch_val(fam, g)
            if all(b[1] == ["lit", None] for b in branches) and (dflt is None or dflt == ["lit", None]):
                branches[0][1] = g(fam)
            # Polars 1.44 returns a length-1 series for a when/then chain whose values are all
            # literals when the first condition is true everywhere (engine bug, DESIGN §4.15):
            # give the chain one column-valued branch where the scope has a column of the family
            vals = [b[1] for b in branches] + ([dflt] if dflt is not None else [])
            if all(v[0] == "lit" for v in vals):
                lf = self.leaf(fam)
                if lf[0] == "col":
                    branches[-1][1] = lf
            return ["case", branches, dflt]
        if o == "map":
            f2 = self.pick(["int", "str"])
            k = d(st.sampled_from(NARY))
            branches, used = [], set()
            for _ in range(k):
                nk = d(st.integers(1, 2))
                keys = []
                for _ in range(nk):
                    kl = lit_of(d, f2, cfg, typed_ok=False)
                    if repr(kl[1]) in used:
                        continue  # keys are unique (documented as the caller's responsibility)
                    used.add(repr(kl[1]))
                    keys.append(kl)
                if not keys:
                    continue
                branches.append([keys, g(fam, 0) if self.chance(3) else lit_of(d, fam, cfg, typed_ok=False)])
            if not branches:
                return g(fam)
            dflt = g(fam, 0) if self.chance(8) else ["lit", None]
            return ["map", g(f2), branches, dflt]
        raise AssertionError(o)

    def _cond(self, g):
        c = g("bool")
        if not any(nd[0] == "col" for nd in walk_expr(c)):
            # conditions refer to a column (an all-literal chain hits the Polars broadcast bug)
            if self.s.by_fam["bool"] and self.chance(5):
                return ["col", self.pick(self.s.by_fam["bool"])[0]]
            for f in self.s.fams_available():
                return ["fn", "is_not_null", [["col", self.pick(self.s.by_fam[f])[0]]], {}]
        return c

    def _branch_val(self, fam, g):
        if self.cfg.null_lits and self.chance(1):
            return ["lit", None]
        if fam == "float" and self.cfg.mixed_numeric and self.chance(3):
            return g("int")
        return g(fam)

    # ---- aggregates ----
    def aggregate(self, fam, depth, ctx_extra=None):
        d = self.draw
        const = getattr(self.s.t, "const_cols", set())
        cid_of = {json_key(r): c for r, c in self.s.capt}
        for n_, c_ in self.s.t.visible:
            cid_of[json_key({"c": n_})] = c_

        def has_real_col(e):
            return any(nd[0] == "col" and cid_of.get(json_key(nd[1])) not in const for nd in walk_expr(e))

        def inner(f):
            # the argument of an aggregate / window function refers to a column that is not a literal column
            # (DESIGN §4.14: the engines keep literal columns as scalars)
            e = ExprGen(self.draw, self.s, self.cfg).gen(f, max(depth - 1, 0))
            if not has_real_col(e):
                lf = self.leaf(f)
                if lf[0] == "col" and has_real_col(lf):
                    return lf
                for f2 in ("int", "float", "str", "bool", "date", "datetime"):
                    if f2 == f:
                        continue
                return None
            return e

        if not self.s.by_fam.get(fam) and fam not in ("int",):
            # no column of this family to aggregate: count rows / sum a boolean instead
            pass
        if fam == "int":
            kind = self.pick(["sum", "sumb", "count", "count_star", "min", "max"])
        elif fam == "float":
            kind = self.pick(["sum", "mean", "meani", "min", "max"])
        elif fam == "bool":
            kind = self.pick(["any", "all", "min", "max"])
        elif fam == "str" and self.cfg.str_join and self.s.id_refs and self.chance(2):
            kind = "str.join"
        else:
            kind = self.pick(["min", "max"])
        ctx = dict(ctx_extra or {})
        if kind == "count_star":
            e = ["fn", "count_star", [], ctx]
            if self.cfg.filter_kw and self.cfg.count_star_filter and self.chance(3):
                ctx["filter"] = [self._filter_cond(depth)]
            return e
        if kind == "sumb":
            arg, op = inner("bool"), "sum"
        elif kind == "count":
            f2 = self.pick(self.s.fams_available() or ["int"])
            arg, op = inner(f2), "count"
        elif kind == "meani":
            arg, op = inner("int"), "mean"
        else:
            arg, op = inner(fam), kind
        if arg is None:
            return self._agg_fallback(fam, ctx)
        e = ["fn", op, [arg], ctx]
        if op == "str.join":
            # ordered aggregate: the order is made total with the id column(s)
            e[2].append(["lit", self.pick(["", ",", "-", " | ", "'"])])
            ctx["arrange"] = self.arrange_keys(True)
        if self.cfg.filter_kw and self.chance(3):
            nf = d(st.integers(1, 2))
            ctx["filter"] = [self._filter_cond(depth) for _ in range(nf)]
        return e

    def _filter_cond(self, depth):
        """A filter= condition; it refers to a column (a literal-only condition is a scalar on Polars)."""
        sub = ExprGen(self.draw, self.s, self.cfg)
        c = sub.gen("bool", max(depth - 1, 0))
        if not any(nd[0] == "col" for nd in walk_expr(c)):
            return sub._cond(lambda f, dd=0: sub.gen(f, dd))
        return c

    def _agg_fallback(self, fam, ctx):
        """An aggregate of the wanted family when the scope has no column to feed it."""
        cs = ["fn", "count_star", [], dict(ctx)]
        if fam == "int":
            return cs
        if fam == "float":
            return ["cast", cs, "float64"]
        if fam == "bool":
            return ["fn", "ge", [cs, ["lit", 0]], {}]
        if fam == "str":
            return ["cast", cs, "str"]
        # date / datetime: aggregate any column's null-ness into a constant choice
        lit = lit_of(self.draw, fam, self.cfg, typed_ok=False)
        return ["case", [[["fn", "ge", [cs, ["lit", 0]], {}], lit]], None]

    # ---- windows ----
    def arrange_keys(self, unique):
        d = self.draw
        k = d(st.integers(1, 2))
        keys = []
        fams = self.s.fams_available() or ["int"]
        for _ in range(k):
            f = self.pick(fams)
            e = ExprGen(self.draw, self.s, self.cfg).gen(f, d(st.integers(0, 1)))
            if not any(nd[0] == "col" for nd in walk_expr(e)):
                e = self.leaf(f)
                if e[0] != "col":
                    continue
            keys.append([e, d(st.booleans()), self.pick(["first", "last"]), d(st.integers(0, 2))])
        if unique:
            for ref in self.s.id_refs:
                keys.append([["col", ref], d(st.booleans()), None, 0])
        if not keys:
            ref, _, _ = self.pick(self.s.vis_refs)
            keys.append([["col", ref], False, "last", 0])
        return dedupe_keys(self.s, keys)

    def window(self, fam, depth):
        d = self.draw
        s = self.s
        ctx = {}
        if self.chance(4) and s.vis_refs:
            k = d(st.integers(1, 2))
            ctx["partition_by"] = [["col", self.pick(s.vis_refs)[0]] for _ in range(k)]
        def inner(f):
            e = ExprGen(self.draw, s, self.cfg).gen(f, max(depth - 1, 0))
            if not any(nd[0] == "col" for nd in walk_expr(e)):
                return self.leaf(f)
            return e

        can_unique = bool(s.id_refs)
        kinds = ["aggwin", "aggwin"]
        if fam == "int":
            kinds += ["rank", "dense_rank"] + (["row_number", "cum_sum", "shift"] if can_unique else [])
        elif fam == "float":
            kinds += (["cum_sum", "shift"] if can_unique else [])
        else:
            kinds += (["shift"] if can_unique else [])
        kind = self.pick(kinds)
        if kind == "aggwin":
            return self.aggregate(fam, depth, ctx_extra=ctx)
        if kind in ("rank", "dense_rank"):
            ctx["arrange"] = self.arrange_keys(False)
            return ["fn", kind, [], ctx]
        no_arr = self.cfg.win_no_arrange and self.chance(3) and kind in ("row_number", "shift")
        if not no_arr:
            ctx["arrange"] = self.arrange_keys(True)
        if kind == "row_number":
            return ["fn", "row_number", [], ctx]
        if kind in ("cum_sum", "shift"):
            a0 = inner(fam)
            if a0[0] == "lit":
                return None
        if kind == "cum_sum":
            return ["fn", "cum_sum", [a0], ctx]
        if kind == "shift":
            n = d(st.integers(-2, 3))
            args = [a0, ["lit", n]]
            if self.chance(4):
                args.append(lit_of(d, fam, self.cfg, typed_ok=False))
            return ["fn", "shift", args, ctx]
        return None


def evaluate(env, t, e, mode="mutate", groups=None):
    ev = Evaluator(env, t, mode, groups)
    return ev.rows(e)


def safe_value_expr(env, t, e, fallback, *, no_undef=False, mode="mutate"):
    """Return e if the reference can evaluate it inside the domain, else the fallback."""
    try:
        vec = evaluate(env, t, e, mode)
    except (OutOfDomain, RefReject):
        return fallback, None
    if no_undef and any(v is UNDEF for v in vec.vals):
        return fallback, None
    return e, vec


def dedupe_keys(scope: Scope, keys):
    """The same column twice in one key list is dropped (Polars' over(order_by=) refuses it)."""
    cid_of = {}
    for ref, c in scope.capt:
        cid_of[(ref["v"], ref["n"])] = c
    vis = scope.t.vis()
    seen, out = set(), []
    for k in keys:
        e = k[0]
        if e[0] == "col":
            r = e[1]
            cid = vis.get(r["c"]) if "c" in r else cid_of.get((r["v"], r["n"]))
            if cid in seen:
                continue
            seen.add(cid)
        out.append(k)
    return out
