HOOK_COMMITS = []
NOT_APPLICABLE = {}
_NOTE = ("Trusted base: the reference interpreter pdtverif/refsem.py (written from the docstrings), the value domain of "
         "DESIGN.md section 4, Hypothesis, Polars 1.44 and stdlib SQLite 3.40 as the only executing SQL engine. "
         "Exploration never shows absence; bounds and class histograms are in the evidence file.")
_T_REF = "property-based testing (Hypothesis) against a reference interpreter"


def _c(text, ref, technique=_T_REF, note=_NOTE):
    return {"text": text, "design_ref": ref, "note": note, "technique": technique}


CHECKS = {
    "C01": _c("Generated pipelines over the full verb set are built on Polars and on SQLite and the exported frames are "
              "compared (names exactly; rows as multisets or as sequences modulo ties under the binding arrange keys). "
              "Exploration with an executable differential oracle is the right level for a property over programs and inputs.",
              "DESIGN.md section 6 C01", "differential property-based testing (Hypothesis), Polars vs SQLite"),
    "C02": _c("Generated compositions of the row-level verbs over generated tables are executed on Polars and SQLite and "
              "compared (names, order, rows) with an independent reference interpreter; failures are bucketed, reduced "
              "and written as replay files.", "DESIGN.md section 6 C02"),
    "C03": _c("A complete grid of operand tuples for every operator named in the statement (exhaustive over the stated "
              "grids, all three operand forms) plus generated nested expressions, each cell compared with the reference "
              "value on Polars and SQLite.", "DESIGN.md section 6 C03",
              "complete enumeration of operand grids + property-based testing against a reference interpreter"),
    "C04": _c("Generated group_by/summarize pipelines with prefix and suffix verbs compared with the reference "
              "(one row per distinct key tuple, null-ignoring aggregates, filter=, HAVING semantics) on both backends.",
              "DESIGN.md section 6 C04"),
    "C05": _c("Generated arrange chains and window-function mutates in all positions relative to filter/slice_head/"
              "select/rename/alias compared with the reference (stable sort with explicit null placement, per-partition "
              "window values) - exact sequence on Polars, sequence modulo ties on SQLite; cum_sum over tied keys and rank over "
              "nullable keys without a nulls marker are decided by validity predicates.", "DESIGN.md section 6 C05"),
    "C06": _c("Generated joins (all kinds, predicates, name-collision configurations, prefix verbs on both sides) compared "
              "with a reference nested-loop join, a validity predicate for the result names, and probe columns through "
              "the original references of every reachable column.", "DESIGN.md section 6 C06"),
    "C07": _c("Generated unions (permuted column order, hidden columns, duplicates, chained and same-origin unions), "
              "hidden-column leak probes and the refusal catalogue, compared with the reference / the documented "
              "exception types on both backends.", "DESIGN.md section 6 C07"),
}

_T_ENUM = "complete enumeration of a finite space (degenerate property-based testing)"
CHECKS.update({
    "C08": _c("Generated verb histories on a SQLite-backed and a Polars-backed twin: every SQL verb call either succeeds or "
              "raises SubqueryError; after SubqueryError the same verb behind alias() must be accepted; every accepted "
              "pipeline must export what Polars and the reference export; restricted-grammar histories must never raise "
              "it.", "DESIGN.md section 6 C08",
              "property-based testing of verb histories (Hypothesis) with a differential and a reference oracle"),
    "C09": _c("Generated verb histories followed by probes of references captured from arbitrary earlier tables, compared "
              "with a reference scoping model over column identities (data equality, current name, ColumnNotFoundError "
              "for columns that are not derivable any more) on both backends.", "DESIGN.md section 6 C09",
              "property-based testing of histories (Hypothesis) against a reference scoping model"),
    "C11": _c("After every step of generated histories columns(), iteration, len, in, dir and repr are compared with the "
              "exported frame's columns on both backends, and the incrementally kept metadata with Cache.from_ast.",
              "DESIGN.md section 6 C11", "property-based testing of histories (Hypothesis), static-vs-dynamic oracle"),
    "C13": _c("Every operator is called with every argument-type tuple of a 50-type universe (arity 0-2 complete, arity 3 "
              "complete in the thorough tier, arity 4 / varargs over representatives); totality, independence of "
              "declaration order and hash seed, uniformity over sized types, const rules and declared signatures are "
              "checked on the complete table. The space is finite, so enumeration is the strongest form of the technique.",
              "DESIGN.md section 6 C13", _T_ENUM,
              "Trusted base: the type universe listed in the evidence rule stands for the parametrised types."),
    "C16": _c("Generated prefix pipelines followed by alias / alias(keep_col_refs=True) / collect / collect(keep_col_refs="
              "False) / transfer_col_references / repeated alias, then further verbs, self-joins and summarize; the "
              "re-rooted table must export exactly what its origin exports and old/new references must behave as the "
              "reference scoping model predicts.", "DESIGN.md section 6 C16",
              "property-based testing of histories (Hypothesis) against a reference scoping model"),
})

CHECKS.update({
    "C10": _c("Generated branches reuse pooled expression objects (aggregate, window, element-wise) under different group_by "
              "states and verbs; a structural fingerprint of every pre-existing table and expression is compared before and "
              "after every call, results with reused objects are compared with freshly built ones and with the reference, "
              "re-exports and repeated build_query must agree.", "DESIGN.md section 6 C10",
              "property-based testing of sharing histories (Hypothesis): structural fingerprints + fresh-vs-reused metamorphic oracle"),
    "C12": _c("For generated pipelines over sized-integer / Float32 tables the static dtype of every output column is "
              "compared with the exported Polars dtype (exact on Polars, same family up to the width on SQLite, Null only for all-null "
              "columns) and Table(exported) / collect() round trips must reproduce the dtypes.", "DESIGN.md section 6 C12",
              "property-based testing (Hypothesis), static-vs-dynamic oracle"),
    "C14": _c("A generated valid history is followed by one verb call with exactly one offender from a catalogue (expression "
              "offenders at generated syntactic positions and verb contexts, verb-level offenders); the call must raise the "
              "documented exception type on both backends and leave the input table usable; converse cases check that "
              "accepted pipelines export on Polars.", "DESIGN.md section 6 C14",
              "property-based testing with planted faults (Hypothesis) against a catalogue of documented exception types"),
    "C17": _c("The complete (source, target) acceptance matrix over the 50-type universe is compared with an independent "
              "encoding of the documented conversion table, and a value grid of boundary values (columns and literals) plus "
              "generated pipelines with casts are compared with the reference conversion on both backends.",
              "DESIGN.md section 6 C17", "complete enumeration of the cast matrix + value grid and property-based testing against a reference"),
    "C18": _c("Literals over an alphabet of SQL/LIKE/regex metacharacters (and negative numbers) are placed in 23 operator "
              "positions; SQLite must agree with Polars and the reference, and the statement skeleton on SQLite, PostgreSQL "
              "and MSSQL must not depend on the literal.", "DESIGN.md section 6 C18",
              "property-based testing (Hypothesis): differential oracle + metamorphic skeleton invariance"),
    "C19": _c("Generated pipelines are compiled with offline SQLite, PostgreSQL and MSSQL engines (one SELECT or a permitted "
              "refusal, deterministic text), and the complete operator x signature x backend table and cast (source x target x strict) x backend table are compiled.",
              "DESIGN.md section 6 C19", "property-based testing with a validity predicate + complete enumeration of the operator and cast tables",
              _NOTE + " PostgreSQL / MSSQL statements are never executed; DuckDB and DB2 drivers are absent."),
    "C20": _c("For generated pipelines (biased towards one-row, one-cell, empty results) every export target is compared with "
              "export(Polars()), ColExpr.export with the mutate column, and Table(exported) with the frame.",
              "DESIGN.md section 6 C20", "property-based testing (Hypothesis), differential oracle between export targets"),
})

CHECKS.update({
    "C15": _c("One pair constructor per listed equivalence instantiates both sides over generated prefix pipelines, "
              "expressions and data; both sides must export the same table on Polars and on SQLite (a side refused by SQL "
              "is counted, not compared).", "DESIGN.md section 6 C15",
              "metamorphic property-based testing (Hypothesis): pairs of equivalent pipelines"),
})
