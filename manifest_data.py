HOOK_COMMITS = []
NOT_APPLICABLE = {}
_NOTE = ("Trusted base: the reference interpreter pdtverif/refsem.py (written from the docstrings), the value domain of "
         "DESIGN.md section 4, Hypothesis, Polars 1.44 and stdlib SQLite 3.40 as the only executing SQL engine. "
         "Exploration never shows absence; bounds are in the evidence file.")
CHECKS = {
    "C02": {
        "text": "Generated compositions of the row-level verbs over generated tables are executed on Polars and SQLite and "
                "compared (names, order, rows) with an independent reference interpreter; failures are bucketed, reduced "
                "and written as replay files. Exploration is the right level: the property quantifies over programs and "
                "inputs and has an executable oracle.",
        "design_ref": "DESIGN.md section 6 C02",
        "note": _NOTE,
        "technique": "property-based testing (Hypothesis) against a reference interpreter",
    },
}
