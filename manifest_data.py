HOOK_COMMITS = []
NOT_APPLICABLE = {}
_NOTE = ("Trusted base: the reference interpreter pdtverif/refsem.py (written from the docstrings), the value domain of "
         "DESIGN.md section 4, Hypothesis, Polars 1.44 and stdlib SQLite 3.40 as the only executing SQL engine. "
         "Exploration never shows absence; bounds and class histograms are in the evidence file.")
_T_REF = "property-based testing (Hypothesis) against a reference interpreter"


def _c(text, ref, technique=_T_REF, note=_NOTE):
    return {"text": text, "design_ref": ref, "note": note, "technique": technique}


CHECKS = {
    "C01": _c("Generated pipelines over the full verb set are built on Polars and on SQLite and the exported frames are "
              "compared (names exactly; rows as multisets or as sequences modulo ties under the binding arrange keys). "
              "Exploration with an executable differential oracle is the right level for a property over programs and inputs.",
              "DESIGN.md section 6 C01", "differential property-based testing (Hypothesis), Polars vs SQLite"),
    "C02": _c("Generated compositions of the row-level verbs over generated tables are executed on Polars and SQLite and "
              "compared (names, order, rows) with an independent reference interpreter; failures are bucketed, reduced "
              "and written as replay files.", "DESIGN.md section 6 C02"),
    "C03": _c("A complete grid of operand tuples for every operator named in the statement (exhaustive over the stated "
              "grids, all three operand forms) plus generated nested expressions, each cell compared with the reference "
              "value on Polars and SQLite.", "DESIGN.md section 6 C03",
              "complete enumeration of operand grids + property-based testing against a reference interpreter"),
    "C04": _c("Generated group_by/summarize pipelines with prefix and suffix verbs compared with the reference "
              "(one row per distinct key tuple, null-ignoring aggregates, filter=, HAVING semantics) on both backends.",
              "DESIGN.md section 6 C04"),
    "C05": _c("Generated arrange chains and window-function mutates in all positions relative to filter/slice_head/"
              "select/rename/alias compared with the reference (stable sort with explicit null placement, per-partition "
              "window values) - exact sequence on Polars, sequence modulo ties on SQLite.", "DESIGN.md section 6 C05"),
    "C06": _c("Generated joins (all kinds, predicates, name-collision configurations, prefix verbs on both sides) compared "
              "with a reference nested-loop join, a validity predicate for the result names, and probe columns through "
              "the original references of every reachable column.", "DESIGN.md section 6 C06"),
    "C07": _c("Generated unions (permuted column order, hidden columns, duplicates, chained and same-origin unions), "
              "hidden-column leak probes and the refusal catalogue, compared with the reference / the documented "
              "exception types on both backends.", "DESIGN.md section 6 C07"),
}
