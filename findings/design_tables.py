#!/venv/bin/python
"""Maintainer script: rewrites the table of repaired defects in DESIGN.md (section 7) from known_findings.json."""
import json
import os
import re

HERE = os.path.dirname(os.path.abspath(__file__))
ROOT = os.path.dirname(HERE)


def main():
    kf = json.load(open(os.path.join(ROOT, "known_findings.json")))["findings"]
    rows = ["| id | property | commit | what failed |", "|----|----------|--------|-------------|"]
    for f in kf:
        if f["status"] == "fixed":
            rows.append(f"| {f['id']} | {f['property']} | `{f['commit']}` | {f['what']} |")
    p = os.path.join(ROOT, "DESIGN.md")
    s = open(p).read()
    pat = re.compile(r"\| id \| property \| commit \| what failed \|\n(\|.*\n)+")
    assert pat.search(s)
    s = pat.sub("\n".join(rows) + "\n", s, count=1)
    open(p, "w").write(s)
    print(len(rows) - 2, "fixed entries written")


if __name__ == "__main__":
    main()
