#!/venv/bin/python
"""Maintainer script (never run by a check): regenerates known_findings.json and the witness
files findings/<id>.json from the descriptions below."""
import datetime as dt
import json
import os
import subprocess
import sys

HERE = os.path.dirname(os.path.abspath(__file__))
sys.path.insert(0, os.path.dirname(HERE))
from pdtverif.ir import C, F, L, V  # noqa: E402


def src(cols, rows, name="t0"):
    return {"name": name, "cols": cols, "rows": rows}


def S(out="v0", table="t0", **kw):
    return {"out": out, "verb": "source", "table": table, **kw}


def st(out, verb, inp, **kw):
    return {"out": out, "verb": verb, "in": inp, **kw}


TB = src([["id", "int64"], ["a", "int64"], ["f", "float64"], ["b", "bool"], ["s", "str"]],
         [[1, 3, 1.5, True, "x.y"], [2, None, None, None, None], [3, -7, -0.25, False, "(a)"], [4, 3, 2.0, True, "$1"]])
TG = src([["id", "int64"], ["g", "int64"], ["x", "int64"]], [[1, 1, 1], [2, 1, 2], [3, 2, 3], [4, 2, None]])
TBB = src([["id", "int64"], ["a", "bool"], ["b", "bool"]],
          [[1, True, True], [2, True, False], [3, False, True], [4, False, False], [5, None, True]])
TL = src([["id", "int64"]], [[1], [2]], "t0")
TR = src([["rid", "int64"], ["x", "int64"]], [[1, None]], "t1")

FIXED = [
    # id, property, commit-title fragment, what, case
    ("F01-when-const", "C03", "constant boolean conditions", "chained .when(<constant bool>) raised DataTypeError",
     {"tables": [TB], "steps": [S(), st("v1", "mutate", "v0", items=[["z", ["case", [[C("b"), C("a")], [L(True), L(0)]], None]]])], "result": "v1"}),
    ("F02-slice-chain", "C02", "consecutive slice_head", "SQL: slice_head chain with second offset beyond first n resurrected rows",
     {"tables": [TB], "steps": [S(), st("v1", "arrange", "v0", keys=[[C("id"), False, None, 0]]), st("v2", "slice_head", "v1", n=2, offset=0),
                                st("v3", "slice_head", "v2", n=2, offset=3)], "result": "v3"}),
    ("F03-replace-all-regex", "C18", "replace_all", "Polars str.replace_all treated the substring as a regex",
     {"tables": [TB], "steps": [S(), st("v1", "mutate", "v0", items=[["z", F("str.replace_all", C("s"), L("."), L("$1"))],
                                                                      ["w", F("str.replace_all", C("s"), L("(a"), L("["))]])], "result": "v1"}),
    ("F04-sqlite-coalesce-1", "C03", "coalesce with a single", "SQLite: coalesce with one argument -> OperationalError",
     {"tables": [TB], "steps": [S(), st("v1", "mutate", "v0", items=[["z", F("coalesce", C("a"))]])], "result": "v1"}),
    ("F05-const-case-date-cast", "C03", "redundant cast", "SQLite: constant date-valued case expression wrapped in lossy CAST(.. AS DATE)",
     {"tables": [src([["id", "int64"], ["b", "bool"]], [[1, True], [2, False]])],
      "steps": [S(), st("v1", "mutate", "v0", items=[["z", ["case", [[L(True), L(dt.date(2000, 7, 1))]], None]]])], "result": "v1"}),
    ("F06-cache-order", "C11", "table metadata keeps", "columns()/drop order differed from export after reordering select / overwriting mutate",
     {"tables": [TB], "steps": [S(), st("v1", "mutate", "v0", items=[["a", F("add", C("a"), L(1))]]),
                                st("v2", "select", "v1", cols=[{"c": "s"}, {"c": "a"}, {"c": "id"}, {"c": "f"}]),
                                st("v3", "drop", "v2", cols=[{"c": "f"}])], "result": "v3"}),
    ("F06b-drop-order", "C02", "table metadata keeps", "drop() reordered columns after an overwriting mutate (cache order)",
     {"tables": [TB], "steps": [S(), st("v1", "mutate", "v0", items=[["a", F("add", C("a"), L(1))]]),
                                st("v3", "drop", "v1", cols=[{"c": "f"}])], "result": "v3"}),
    ("F07-neg-comment", "C18", "unary minus", "SQL: -lit(-65) rendered as --65 (comment)",
     {"tables": [TB], "steps": [S(), st("v1", "mutate", "v0", items=[["z", F("add", F("neg", L(-65)), C("a"))]])], "result": "v1"}),
    ("F08-invert-precedence", "C03", "boolean inversion", "SQLite: b == ~a rendered as b = a = 0",
     {"tables": [TBB], "steps": [S(), st("v1", "mutate", "v0", items=[["z", F("eq", C("b"), F("invert", C("a")))],
                                                                       ["w", F("gt", C("b"), F("invert", C("a")))]])], "result": "v1"}),
    ("F09-const-order-by", "C05", "constant terms in SQL ORDER BY", "SQL: arrange over a constant column rendered ORDER BY <int> (positional)",
     {"tables": [TB], "steps": [S(), st("v1", "mutate", "v0", items=[["k", L(2)]]),
                                st("v2", "arrange", "v1", keys=[[C("k"), True, "last", 0], [C("id"), True, None, 0]]),
                                st("v2b", "drop", "v2", cols=[{"c": "k"}]),
                                st("v3", "slice_head", "v2b", n=2, offset=0)], "result": "v3"}),
    ("F10-sqlite-round-int", "C03", "round() of an integer", "SQLite: round() of an Int column returned floats",
     {"tables": [TB], "steps": [S(), st("v1", "mutate", "v0", items=[["z", ["cast", F("round", C("a"), L(2)), "str"]]])], "result": "v1"}),
    ("F11-union-same-origin-refs", "C07", "union of tables derived from a common table",
     "union of two tables derived from one table: later use of the common table's references -> KeyError",
     {"tables": [TG], "steps": [S(), st("v1", "filter", "v0", preds=[F("eq", C("g"), L(1))]), st("v2", "filter", "v0", preds=[F("eq", C("g"), L(2))]),
                                {"out": "v3", "verb": "union", "in": "v1", "right": "v2", "distinct": False},
                                st("v4", "mutate", "v3", items=[["z", F("add", V("v0", "x"), L(1))]])], "result": "v4"}),
    ("F12-polars-count-null", "C04", "count() of a group without non-null", "Polars: count(col) of an all-null group gave null instead of 0",
     {"tables": [TG], "steps": [S(), st("v1", "group_by", "v0", cols=[{"c": "g"}]),
                                st("v2", "summarize", "v1", items=[["c", F("count", C("x"), filter=[F("gt", C("x"), L(100))])]])], "result": "v2"}),
    ("F13-case-ftype-mix", "C04", "case expression mixing aggregated", "case expression over aggregated and grouping values crashed with TypeError",
     {"tables": [TG], "steps": [S(), st("v1", "group_by", "v0", cols=[{"c": "g"}]),
                                st("v2", "summarize", "v1", items=[["s", F("sum", C("x"))]]),
                                st("v3", "mutate", "v2", items=[["z", ["case", [[F("gt", C("g"), L(1)), C("s")]], C("g")]]])], "result": "v3"}),
    ("F14-group-by-aggregate", "C08", "grouping by an aggregated column", "SQL: group_by over an aggregated column compiled to GROUP BY count(*)",
     {"tables": [TG], "steps": [S(), st("v1", "summarize", "v0", items=[["n", F("count_star")]]), st("v2", "group_by", "v1", cols=[{"c": "n"}]),
                                st("v3", "summarize", "v2", items=[["m", F("count_star")]])], "result": "v3"}),
    ("F15a-filter-after-ungrouped-summarize", "C04", "SQL verbs after a summarize without grouping",
     "SQL: filter after an ungrouped summarize went to WHERE",
     {"tables": [TG], "steps": [S(), st("v1", "summarize", "v0", items=[["s", F("sum", C("x"))]]),
                                st("v2", "filter", "v1", preds=[F("gt", C("s"), L(100))])], "result": "v2"}),
    ("F15b-nested-summarize-same-groups", "C08", "SQL verbs after a summarize without grouping",
     "SQL: second summarize over the same grouping columns merged into the first SELECT",
     {"tables": [TG], "steps": [S(), st("v1", "group_by", "v0", cols=[{"c": "g"}]), st("v2", "summarize", "v1", items=[["s", F("sum", C("x"))]]),
                                st("v3", "group_by", "v2", cols=[{"c": "g"}]), st("v4", "summarize", "v3", items=[["n", F("count_star")]])], "result": "v4"}),
    ("F16-slice-head-zero", "C08", "slice_head(0) counts as a limit", "SQL: slice_head(0) not treated as a limit for subquery detection",
     {"tables": [TG], "steps": [S(), st("v1", "arrange", "v0", keys=[[C("id"), False, None, 0]]), st("v2", "slice_head", "v1", n=0, offset=0),
                                st("v3", "summarize", "v2", items=[["n", F("count_star")]])], "result": "v3"}),
    ("F17-union-order-by", "C07", "drop ORDER BY of union operands", "SQLite: arrange before union -> syntax error",
     {"tables": [TG], "steps": [S(), st("v1", "arrange", "v0", keys=[[C("x"), False, "last", 0]]), S("v2", "t0", name="r"),
                                {"out": "v3", "verb": "union", "in": "v1", "right": "v2", "distinct": False}], "result": "v3"}),
    ("F18-ungroup-assert", "C08", "ungroup after re-grouping", "SQL: group_by >> summarize >> group_by >> ungroup hit an assertion",
     {"tables": [TG], "steps": [S(), st("v1", "group_by", "v0", cols=[{"c": "g"}]), st("v2", "summarize", "v1", items=[["n", F("count_star")]]),
                                st("v3", "group_by", "v2", cols=[{"c": "g"}]), st("v4", "ungroup", "v3")], "result": "v4"}),
    ("F19-union-right-alias-assert", "C08", "alias() on the right operand of a union",
     "SQL: union whose right operand needs a subquery (alias() present) raised AssertionError",
     {"tables": [TG], "steps": [S(), S("v1", "t0", name="r"), st("v2", "arrange", "v1", keys=[[C("id"), False, None, 0]]),
                                st("v3", "slice_head", "v2", n=2, offset=0), st("v4", "alias", "v3", keep=True),
                                {"out": "v5", "verb": "union", "in": "v0", "right": "v4", "distinct": False}], "result": "v5"}),
    ("F20-subquery-search-through-union", "C08", "stops at a union",
     "SQL: a verb needing a subquery after a union walked into the union's operands (TypeError in SqlImpl.__new__)",
     {"tables": [TG], "steps": [S(), S("v1a", "t0", name="r"), st("v1", "alias", "v1a", keep=False),
                                {"out": "v2", "verb": "union", "in": "v0", "right": "v1", "distinct": False},
                                st("v3", "arrange", "v2", keys=[[C("id"), False, None, 0], [C("x"), False, "last", 0]]),
                                st("v4", "slice_head", "v3", n=8, offset=0), st("v5", "group_by", "v4", cols=[{"c": "g"}]),
                                st("v6", "summarize", "v5", items=[["n", F("count_star")]])], "result": "v6"}),
    ("F21-polars-window-order-names", "C05", "polars window functions with several ordering expressions over one column",
     "Polars: partition_by= plus two arrange= expressions over one column raised DuplicateError",
     {"tables": [TG], "steps": [S(), st("v1", "mutate", "v0", items=[["w", F("shift", C("x"), L(1), partition_by=[C("g")],
                                                                           arrange=[[F("mod", C("id"), L(2)), True, None, 0], [C("id"), False, None, 0]])]])],
      "result": "v1"}),
    ("F22-subquery-drops-group-cols", "C08", "keep the grouping columns when a subquery",
     "SQL: subquery below a summarize did not select the grouping columns (KeyError)",
     {"tables": [TG], "steps": [S(), st("v1", "group_by", "v0", cols=[{"c": "g"}]), st("v2", "summarize", "v1", items=[["s", F("sum", C("x"))]]),
                                st("v3", "group_by", "v2", cols=[{"c": "g"}]), st("v4", "alias", "v3", keep=True),
                                st("v5", "summarize", "v4", items=[["m", F("max", C("s"))]]), st("v6", "select", "v5", cols=[{"c": "m"}])],
      "result": "v6"}),
    ("F23-polars-union-hidden-names", "C07", "polars union forgets the hidden columns",
     "Polars: mutate with the name of a column hidden before a union raised ColumnNotFoundError",
     {"tables": [TB, src([["a", "int64"]], [[5]], "t1")],
      "steps": [S(), st("v1", "select", "v0", cols=[{"c": "a"}]), S("v2", "t1"),
                {"out": "v3", "verb": "union", "in": "v1", "right": "v2", "distinct": False},
                st("v4", "mutate", "v3", items=[["s", F("mul", C("a"), L(2))]])], "result": "v4"}),
    ("F24-union-right-self-join-alias", "C07", "source tables in the right operand of a union",
     "SQL: self-join inside the right operand of a union rendered without table aliases (ambiguous column)",
     {"tables": [TG], "steps": [S(), st("v1", "select", "v0", cols=[{"c": "id"}, {"c": "g"}]), S("v2", "t0", name="r1"),
                                st("v3", "alias", "v2", keep=False, name="r2"),
                                {"out": "v4", "verb": "join", "in": "v2", "right": "v3", "how": "inner",
                                 "on": [F("eq", V("v2", "id"), V("v3", "id"))], "suffix": "_r"},
                                st("v5", "select", "v4", cols=[{"c": "id"}, {"c": "g"}]),
                                {"out": "v6", "verb": "union", "in": "v1", "right": "v5", "distinct": False}], "result": "v6"}),
    ("F25-sql-export-null-prefix", "C01", "infers the frame schema from all rows",
     "SQL export failed (ComputeError) for a column starting with more than 100 nulls",
     {"tables": [src([["id", "int64"], ["x", "float64"]], [[i, None if i <= 110 else 1.5] for i in range(1, 121)])],
      "steps": [S(), st("v1", "mutate", "v0", items=[["y", F("add", C("x"), L(1.0))]])], "result": "v1"}),
    ("F26-distinct-union-pruning", "C07", "keep all operand columns below a distinct union",
     "SQL: columns pruned from a subquery below union(distinct=True) merged rows that differ in a later deselected column",
     {"tables": [TG], "steps": [S(), st("v1", "mutate", "v0", items=[["w", F("rank", arrange=[[C("id"), False, None, 0]])]]),
                                S("v2", "t0", name="r"), st("v3", "mutate", "v2", items=[["w", L(0)]]),
                                {"out": "v4", "verb": "union", "in": "v1", "right": "v3", "distinct": True},
                                st("v5", "select", "v4", cols=[{"c": "g"}])], "result": "v5"}),
    ("F27-join-is-filtered", "C06", "counts as filtered if the inner-joined right table",
     "SQL: full join after an inner join with a filtered right table hit an assertion at export",
     {"tables": [TG, src([["rid", "int64"], ["y", "int64"]], [[1, 10], [2, 20], [5, 50]], "t1")],
      "steps": [S(), S("v1", "t1"), st("v2", "filter", "v1", preds=[F("gt", C("y"), L(10))]),
                {"out": "v3", "verb": "join", "in": "v0", "right": "v2", "how": "inner", "on": [F("eq", V("v0", "id"), V("v1", "rid"))]},
                S("v4", "t0", name="r"),
                {"out": "v5", "verb": "join", "in": "v3", "right": "v4", "how": "full", "on": [F("eq", V("v0", "id"), V("v4", "id"))], "suffix": "_r"}],
      "result": "v5"}),
]

OPEN = [
    # id, property list, what, signature regex, matcher, case
    ("K01-left-join-computed-right", ["C06", "C01"],
     "SQL: a column computed on the right side of a left/full join by a non-null-propagating expression (fill_null, "
     "is_null, coalesce, case ...) is evaluated after the join and is not null for unmatched rows",
     r"mismatch\|.*(join|\?)", "outer_join_computed_side",
     {"tables": [TL, TR], "steps": [S("v0", "t0"), S("v1", "t1"),
                                    st("v2", "mutate", "v1", items=[["z", F("fill_null", C("x"), L(0))]]),
                                    {"out": "v3", "verb": "join", "in": "v0", "right": "v2", "how": "left",
                                     "on": [F("eq", V("v0", "id"), V("v1", "rid"))]}], "result": "v3"}),
    ("K03-ungrouped-summarize-deselected", ["C04", "C01"],
     "SQL: after an ungrouped summarize, deselecting all its aggregate columns (e.g. keeping only a constant column) "
     "removes every aggregate function from the SELECT, which then returns one row per input row instead of one row",
     r"(mismatch\|.*height)|(internal-error\|sqlite:export:OperationalError)", "ungrouped_summarize_deselected",
     {"tables": [TG], "steps": [S(), st("v1", "summarize", "v0", items=[["s", F("sum", C("x"))]]),
                                st("v2", "mutate", "v1", items=[["k", L("c")]]), st("v3", "select", "v2", cols=[{"c": "k"}])],
      "result": "v3"}),
]

OPEN += [
    ("K05-group-by-constant-column", ["C04", "C01"],
     "SQL: constant grouping columns are left out of GROUP BY; if all grouping columns are constant the SELECT has no "
     "GROUP BY: an empty input gives one row instead of none, and without an aggregate function one row per input row",
     r"mismatch\|.*(height|rows)", "group_by_constant",
     {"tables": [src([["id", "int64"], ["x", "int64"]], [])],
      "steps": [S(), st("v1", "mutate", "v0", items=[["k", L(1)]]), st("v2", "group_by", "v1", cols=[{"c": "k"}]),
                st("v3", "summarize", "v2", items=[["s", F("sum", C("x"))]])], "result": "v3"}),
]

FIXED += [
    ("F28-subquery-loses-ungrouped-aggregate", "C08", "a subquery keeps an aggregate of a summarize without grouping",
     "SQL: ungrouped summarize whose columns are unused by the following summarize vanished from the subquery",
     {"tables": [TG], "steps": [S(), st("v1", "group_by", "v0", cols=[{"c": "g"}]), st("v2", "summarize", "v1", items=[["y", F("sum", C("x"))]]),
                                st("v3", "alias", "v2", keep=True), st("v4", "summarize", "v3", items=[["q", F("count_star")]]),
                                st("v5", "alias", "v4", keep=True), st("v6", "summarize", "v5", items=[["n", F("count_star")]])],
      "result": "v6"}),
    ("F29-case-cond-ftype", "C08", "function type of a case expression accounts for its conditions",
     "window function inside a case condition was not recognised (nested window compiled into one SELECT)",
     {"tables": [TG], "steps": [S(), st("v1", "mutate", "v0", items=[["w", ["case", [[F("ge", F("count_star"), L(3)), C("x")]], None]]]),
                                st("v2", "mutate", "v1", items=[["m", F("max", C("w"))]])], "result": "v2"}),
    ("F30a-window-after-slice", "C08", "window functions need a subquery after slice_head and before filter",
     "SQL: window function after slice_head computed over the rows before the limit",
     {"tables": [TG], "steps": [S(), st("v1", "arrange", "v0", keys=[[C("id"), False, None, 0]]), st("v2", "slice_head", "v1", n=2, offset=0),
                                st("v3", "mutate", "v2", items=[["s", F("sum", C("x"))]])], "result": "v3"}),
    ("F30b-filter-after-window", "C08", "window functions need a subquery after slice_head and before filter",
     "SQL: filter after a window function restricted the rows the window function saw",
     {"tables": [TG], "steps": [S(), st("v1", "mutate", "v0", items=[["s", F("sum", C("x"))]]),
                                st("v2", "filter", "v1", preds=[F("eq", C("g"), L(1))])], "result": "v2"}),
]

FIXED += [
    ("F31-polars-rank-struct-names", "C05", "rank / dense_rank with several ordering expressions",
     "Polars: rank/dense_rank with two arrange= expressions over one column raised DuplicateError",
     {"tables": [TB], "steps": [S(), st("v1", "mutate", "v0", items=[["p", F("dense_rank", arrange=[[C("s"), False, "last", 0],
                                                                                                     [F("lt", C("s"), L("a")), False, "last", 0]])]])],
      "result": "v1"}),
    ("F32-sqlite-date-to-datetime-format", "C17", "cast from Date to Datetime uses the stored datetime text format",
     "SQLite: Date -> Datetime cast produced a text format that compares wrongly with stored datetimes",
     {"tables": [src([["id", "int64"], ["x", "datetime"], ["y", "date"]],
                     [[1, {"$dt": "2000-02-29T00:00:00"}, {"$d": "2000-02-29"}], [2, {"$dt": "2000-02-29T01:00:00"}, {"$d": "2000-02-29"}]])],
      "steps": [S(), st("v1", "mutate", "v0", items=[["gt", F("gt", C("x"), ["cast", C("y"), "datetime"])],
                                                      ["eq", F("eq", C("x"), ["cast", C("y"), "datetime"])]])], "result": "v1"}),
]

FIXED += [
    ("F33-polars-clip-non-numeric", "C03", "polars clip for string and boolean columns",
     "Polars: clip on a String/Bool column raised InvalidOperationError",
     {"tables": [TB], "steps": [S(), st("v1", "mutate", "v0", items=[["z", F("clip", C("s"), L("("), L("a"))]])], "result": "v1"}),
    ("F34-sql-summarize-overwrites-key", "C04", "SQL summarize that overwrites a grouping column",
     "SQL: summarize overwriting a grouping column failed at export (zip ValueError)",
     {"tables": [TG], "steps": [S(), st("v1", "group_by", "v0", cols=[{"c": "g"}, {"c": "id"}]),
                                st("v2", "summarize", "v1", items=[["s", F("sum", C("x"))], ["g", F("max", C("x"))]])], "result": "v2"}),
    ("F35-count-star-filter-ignored", "C04", "pdt.count(filter=...) respects the filter",
     "pdt.count(filter=...) ignored its filter on every backend",
     {"tables": [TG], "steps": [S(), st("v1", "group_by", "v0", cols=[{"c": "g"}]),
                                st("v2", "summarize", "v1", items=[["n", F("count_star", filter=[F("gt", C("x"), L(1))])]])], "result": "v2"}),
]

FIXED += [
    ("F36-union-int-float", "C07", "union of an Int and a Float column",
     "union of an Int and a Float column accepted but failed on Polars; metadata kept the left type",
     {"tables": [src([["x", "int64"], ["s", "str"]], [[1, "a"], [2, "b"]]), src([["s", "str"], ["x", "float64"]], [["a", 1.0], [None, None]], "t1")],
      "steps": [S(), S("v1", "t1"), {"out": "v2", "verb": "union", "in": "v0", "right": "v1", "distinct": True}], "result": "v2"}),
]

FIXED += [
    ("F37a-overload-null-ambiguity", "C13", "overload resolution with only null arguments",
     "operators with several overloads raised AssertionError for NullType-only arguments",
     {"op": "abs", "args": ["NullType"]}),
    ("F37b-const-tyvar-param", "C13", "overload resolution with only null arguments",
     "a parameter declared Const(S) accepted a column once S was bound (shift fill_value)",
     {"op": "shift", "args": ["Int64", "const Int", "Int"]}),
]

FIXED += [
    ("F38-repr-grouped-table", "C11", "printing a grouped table", "repr() of a grouped table printed 'export failed: TypeError'",
     {"tables": [TG], "steps": [S(), st("v1", "group_by", "v0", cols=[{"c": "g"}])], "result": "v1", "validate": "check"}),
]

FIXED += [
    ("F39-collect-grouped", "C16", "collect() of a grouped table", "group_by(..) >> collect() raised TypeError (UUID in expression)",
     {"tables": [TG], "steps": [S(), st("v1", "group_by", "v0", cols=[{"c": "g"}]), st("v2", "collect", "v1", keep=True),
                                st("v3", "summarize", "v2", items=[["s", F("sum", V("v0", "x"))]])],
      "result": "v3", "pl_only": True, "kind": "collect", "origin": "v1", "rerooted": "v2", "probes": [], "c_probes": [],
      "validate": "check"}),
]

FIXED += [
    ("F40-transfer-hidden-columns", "C16", "transfer_col_references for a table with hidden columns",
     "transfer_col_references(table with hidden columns, ref) raised KeyError",
     {"tables": [TG], "steps": [S(), st("v1", "rematerialize", "v0"), st("v2", "select", "v1", cols=[{"c": "id"}, {"c": "g"}]),
                                {"out": "v3", "verb": "transfer", "in": "v2", "ref": "v0"},
                                st("v4", "mutate", "v3", items=[["z", F("mul", V("v0", "g"), L(10))]])],
      "result": "v4", "pl_only": True, "kind": "transfer", "origin": "v2", "rerooted": "v3", "probes": [], "c_probes": [],
      "validate": "check"}),
]

FIXED += [
    ("F41-join-suffix-right-collision", "C06", "join suffix must not collide with an unrenamed right column",
     "join raised ValueError when the suffixed name of a clashing column equals another right column",
     {"tables": [src([["y", "int64"], ["a", "int64"]], [[1, 1], [2, 2]]), src([["y", "int64"], ["y_t1", "int64"]], [[1, 5], [2, 6]], "t1")],
      "steps": [S(), S("v1", "t1"), {"out": "v2", "verb": "join", "in": "v0", "right": "v1", "how": "inner",
                                      "on": [F("eq", V("v0", "y"), V("v1", "y"))]}], "result": "v2"}),
]

FIXED += [
    ("F42-polars-chained-nonequi-left-join", "C06", "consecutive non-equi left joins on polars",
     "Polars: a second left join with a non-equality condition raised DuplicateError (id_right)",
     {"tables": [src([["id", "int64"], ["c", "int64"]], [[1, 1], [2, 5], [3, 9]])],
      "steps": [S(), st("v1", "alias", "v0", keep=False, name="a"),
                {"out": "v2", "verb": "join", "in": "v0", "right": "v1", "how": "left", "on": [F("lt", V("v0", "c"), V("v1", "c"))], "suffix": "_x"},
                S("v3", "t0", name="b"),
                {"out": "v4", "verb": "join", "in": "v2", "right": "v3", "how": "left", "on": [F("gt", V("v3", "c"), V("v0", "c"))], "suffix": "_t1"}],
      "result": "v4"}),
]

FIXED += [
    ("F43-preprocess-arg-mutates-expression", "C10", "verbs do not modify the expression objects passed to them",
     "an aggregate expression object reused under another grouping state kept the first partition_by",
     {"tables": [TG], "shared": [F("sum", V("v0", "x"))], "kinds": ["agg"],
      "steps": [S(), st("v1", "mutate", "v0", items=[["q", ["shared", 0]]]), st("v2", "group_by", "v0", cols=[{"v": "v0", "n": "g"}]),
                st("v3", "mutate", "v2", items=[["q", ["shared", 0]]]), st("v4", "summarize", "v2", items=[["s", ["shared", 0]]])],
      "results": ["v1", "v3", "v4"], "result": "v4", "validate": "check"}),
]

FIXED += [
    ("F44-polars-neg-unsigned", "C12", "polars negation of unsigned integers", "Polars: unary minus on an unsigned integer column raised InvalidOperationError",
     {"tables": [src([["id", "int64"], ["u", "uint16"]], [[1, 1], [2, None]])],
      "steps": [S(), st("v1", "mutate", "v0", items=[["z", F("neg", C("u"))]])], "result": "v1", "validate": "check"}),
    ("F45-polars-join-key-dtype", "C12", "polars negation of unsigned integers",
     "Polars: right key column restored after join_where took the left column's dtype",
     {"tables": [src([["id", "int64"], ["a", "uint32"], ["c", "int64"]], [[1, 1, 1], [2, 2, 1]]), src([["id", "int64"], ["x", "int64"]], [[1, 5], [2, 0]], "t1")],
      "steps": [S(), S("v1", "t1"), {"out": "v2", "verb": "join", "in": "v0", "right": "v1", "how": "inner", "suffix": "_r",
                                      "on": [F("le", V("v0", "c"), V("v1", "x")), F("eq", V("v1", "id"), V("v0", "a"))]}],
      "result": "v2", "validate": "check"}),
]

FIXED += [
    ("F46-select-unknown-string", "C14", "select() with an unknown column name given as a string",
     "select('nope') raised AttributeError instead of ColumnNotFoundError",
     {"tables": [TG], "steps": [S()], "result": "v0", "mode": "reject",
      "offender": {"kind": "verb", "which": "select_unknown", "expect": "ColumnNotFoundError", "anycol": C("id")}, "validate": "check"}),
]

OPEN += [
    ("K06-polars-int64-uint64-arithmetic", ["C12"],
     "Polars: arithmetic between an Int64 and a UInt64 column is computed in Float64 although the static type is Int",
     r"dtype\|polars:int->", "uint64_column",
     {"tables": [src([["id", "int64"], ["k", "int64"], ["a", "uint64"]], [[1, 2, 3]])],
      "steps": [S(), st("v1", "mutate", "v0", items=[["z", F("mul", C("k"), C("a"))]])], "result": "v1"}),
]

FIXED += [
    ("F47-join-suffix-counter", "C06", "numeric join suffix must work for all right columns",
     "automatic join suffix counter produced a duplicate column name (a_t1_1 twice)",
     {"tables": [src([["a", "int64"], ["a_t1_1", "int64"], ["b", "int64"], ["b_t1", "int64"]], [[1, 1, 2, 3]]),
                 src([["a", "int64"], ["b", "int64"], ["z", "int64"]], [[1, 2, 1]], "t1")],
      "steps": [S(), S("v1", "t1"), {"out": "v2", "verb": "join", "in": "v0", "right": "v1", "how": "inner",
                                      "on": [F("eq", V("v0", "a"), V("v1", "z"))]}], "result": "v2"}),
]

FIXED += [
    ("F48-sql-str-slice-untyped", "C03", "SQL str.slice returns a typed string expression",
     "SQL: concatenating str.slice results used numeric '+' (SQLite returned 0)",
     {"tables": [TB], "steps": [S(), st("v1", "mutate", "v0", items=[["z", F("add", F("str.slice", C("s"), L(0), L(2)), F("str.slice", C("s"), L(1), L(1)))]])],
      "result": "v1"}),
]

FIXED += [
    ("F49-sql-group-by-stale-const-ref", "C07", "SQL GROUP BY keeps a key that is only constant by a stale type",
     "SQL: group_by(<reference to a literal column held from before a union>) after the union emitted no GROUP BY",
     {"tables": [TG], "steps": [S(), st("v1", "mutate", "v0", items=[["src", L("a")]]), st("v2", "mutate", "v0", items=[["src", L("b")]]),
                                {"out": "v3", "verb": "union", "in": "v1", "right": "v2", "distinct": False},
                                st("v4", "group_by", "v3", cols=[{"v": "v1", "n": "src"}]),
                                st("v5", "summarize", "v4", items=[["n", F("count_star")]])], "result": "v5"}),
]

FIXED += [
    ("F50-stale-col-dtype-after-union", "C12", "a held column reference takes its type from the table it is used on",
     "reference to an Int column held from before a union with a Float column kept the static type Int (exported Float64)",
     {"tables": [src([["id", "int64"], ["y", "float64"]], [[1, 0.5], [2, 1.5]])],
      "steps": [S(), st("v1", "mutate", "v0", items=[["id", C("y")]]),
                {"out": "v2", "verb": "union", "in": "v0", "right": "v1", "distinct": False},
                st("v3", "mutate", "v2", items=[["d", V("v0", "id")]])], "result": "v3", "validate": "check"}),
]

FIXED += [
    ("F51-sql-subquery-label-overwrite", "C11", "columns keep their own name outside of a SQL subquery",
     "SQL: a column renamed inside a subquery (name collision with a hidden column) was not recognised as overwritten by a "
     "later mutate -> extra column in the SELECT, export raised ValueError",
     {"tables": [{"cols": [["id", "int64"], ["d", "datetime"], ["x", "datetime"]], "name": "t0", "rows": []}], "steps": [{"out": "v0", "table": "t0", "verb": "source"}, {"in": "v0", "items": [["b_t1", ["fn", "ge", [["fn", "count_star", [], {}], ["lit", 0]], {}]], ["q", ["lit", {"$d": "1974-12-25"}]]], "out": "v2", "verb": "summarize"}, {"in": "v2", "items": [["q", ["lit", 11.0, "float64"]]], "out": "v3", "verb": "mutate"}, {"in": "v3", "items": [["k", ["fn", "all", [["col", {"c": "b_t1"}]], {"filter": [["col", {"c": "b_t1"}], ["col", {"n": "b_t1", "v": "v2"}]]}]]], "out": "v4", "verb": "mutate"}, {"in": "v4", "items": [["q", ["col", {"n": "q", "v": "v2"}]], ["a_r", ["col", {"c": "q"}]]], "out": "v5", "verb": "mutate"}], "result": "v5"}),
]

FIXED += [
    ('F52-sql-subquery-suffix-collision', 'C01', 'subquery column suffix avoids the names of other columns',
     'SQL: the suffix given to a hidden column of the same name inside a subquery (a_t1 -> a_t1_1) collided with an existing column a_t1_1 -> InvalidRequestError',
     json.loads('{"result": "v6", "steps": [{"out": "v0", "table": "t0", "verb": "source"}, {"in": "v0", "map": [["id", "a_t1"], ["c", "a_t1_1"]], "out": "v1", "verb": "rename"}, {"in": "v1", "n": 0, "offset": 1, "out": "v3", "verb": "slice_head"}, {"in": "v3", "items": [["a_t1", ["lit", true]]], "out": "v4", "verb": "mutate"}, {"in": "v4", "items": [["k", ["col", {"n": "a_t1", "v": "v3"}]], ["y", ["fn", "max", [["case", [[["fn", "fill_null", [["col", {"n": "a_t1", "v": "v4"}], ["col", {"c": "a_t1"}]], {}], ["cast", ["lit", {"$d": "1933-02-22"}], "datetime"]]], ["lit", null]]], {}]]], "out": "v6", "verb": "mutate"}], "tables": [{"cols": [["id", "int64"], ["c", "int64"], ["a", "int64"], ["y", "float64"]], "name": "t0", "rows": []}]}')),
]

FIXED += [
    ('F53-join-hidden-const-window', 'C06', 'join subquery rules also look at deselected columns',
     'SQL: a deselected literal (or window) column of a join operand was inlined after a left/full join: not null for unmatched rows (window: computed over the joined rows)',
     json.loads('{"join_var": "v6", "result": "v7", "steps": [{"out": "v0", "table": "t0", "verb": "source"}, {"in": "v0", "items": [["a_r", ["lit", false]], ["a_t1", ["lit", 241.4375]]], "out": "v1", "verb": "mutate"}, {"cols": [{"n": "c", "v": "v1"}], "in": "v1", "out": "v3", "verb": "select"}, {"out": "v4", "table": "t2", "verb": "source"}, {"how": "full", "in": "v3", "on": [["fn", "eq", [["col", {"n": "a_t1", "v": "v1"}], ["col", {"n": "k", "v": "v4"}]], {}]], "out": "v6", "right": "v4", "verb": "join"}, {"in": "v6", "items": [["pr7", ["col", {"n": "a_r", "v": "v1"}]]], "out": "v7", "verb": "mutate"}], "tables": [{"cols": [["id", "int64"], ["c", "date"], ["k", "int64"], ["a", "datetime"]], "name": "t0", "rows": []}, {"cols": [["id", "int64"], ["b", "int64"], ["k", "float64"], ["a", "int64"], ["x", "int64"]], "name": "t2", "rows": [[6, 1283, -1.5, 7, -3134]]}], "validate": "check"}')),
]

FIXED += [
    ('F54-polars-neg-generic-int', 'C12', 'Polars negation of an unsigned value typed as generic Int',
     'Polars: -(min of a UInt32 column) raised InvalidOperationError (neg not supported for u32): the aggregate is typed as generic Int',
     json.loads('{"result": "v2", "steps": [{"out": "v0", "table": "t1", "verb": "source"}, {"in": "v0", "items": [["q", ["fn", "neg", [["fn", "min", [["col", {"c": "a"}]], {"filter": [["col", {"c": "d"}]]}]], {}]]], "out": "v2", "verb": "summarize"}], "tables": [{"cols": [["id", "int64"], ["k", "float64"], ["d", "bool"], ["a", "uint32"]], "name": "t1", "rows": [[11, -168.5, null, null]]}]}')),
]

FIXED += [
    ("F55-summarize-hidden-group-col", "C14", "summarize with a deselected grouping column raises ValueError instead of KeyError",
     "group_by(g) >> select(x) / drop(g) / mutate(g=...) >> summarize(...) raised an internal KeyError(UUID) on both backends",
     {"tables": [TG], "steps": [S(), st("v1", "group_by", "v0", cols=[{"c": "g"}]), st("v2", "select", "v1", cols=[{"c": "x"}]),
                                st("v3", "summarize", "v2", items=[["s", F("sum", C("x"))]])], "result": "v3"}),
    ("F56-collect-hidden-group-col", "C16", "collect with a deselected grouping column raises ValueError instead of KeyError",
     "group_by(g) >> select(x) >> collect() raised an internal KeyError(UUID)",
     {"tables": [TG], "steps": [S(), st("v1", "group_by", "v0", cols=[{"c": "g"}]), st("v2", "select", "v1", cols=[{"c": "x"}]),
                                st("v3", "collect", "v2", keep=True)], "result": "v3"}),
]

FIXED += [
    ("F57-colexpr-export-arrange-cols", "C20", "Order.iter_children yields the ordering expression (ColExpr.export of row_number / rank)",
     "row_number(arrange=t.id).export(Polars()) raised StopIteration: the columns inside arrange= were not found",
     {"tables": [TG], "steps": [S()], "result": "v0", "validate": "check",
      "expr": {"var": "v0", "expr": F("row_number", arrange=[[V("v0", "id"), False, "first", 1]])}}),
    ("F58-colexpr-export-no-column", "C20", "exporting a column expression without any column raises ValueError instead of StopIteration",
     "pdt.count().export(Polars()) raised StopIteration",
     {"tables": [TG], "steps": [S()], "result": "v0", "validate": "check",
      "expr": {"var": "v0", "expr": F("count_star")}}),
]

FIXED += [
    ('F59-sql-pow-float-decimal', 'C03', 'SQL pow of float operands returns a float, not a decimal',
     'SQL: pow() of Float operands was typed NUMERIC (sqa.Float is a subclass of sqa.Numeric): results came back as Decimal, export failed for magnitudes beyond Decimal128',
     json.loads('{"result": "v1", "steps": [{"out": "v0", "table": "t0", "verb": "source"}, {"in": "v0", "items": [["y", ["fn", "pow", [["fn", "mul", [["col", {"n": "x", "v": "v0"}], ["fn", "hmax", [["col", {"n": "x", "v": "v0"}], ["col", {"c": "x"}], ["col", {"c": "x"}]], {}]], {}], ["lit", 3.0]], {}]]], "out": "v1", "verb": "mutate"}], "tables": [{"cols": [["id", "int64"], ["x", "float64"], ["c", "datetime"], ["d", "datetime"], ["k", "bool"]], "name": "t0", "rows": [[3, -64798.0, null, null, null]]}]}')),
]

FIXED += [
    ("F60-sql-typed-null-float-literal", "C18", "SQL literal of a float type may be null",
     "SQL: pdt.lit(None, Float64()) raised TypeError (math.isnan(None)) when compiled",
     {"tables": [TB], "steps": [S(), st("v1", "mutate", "v0", items=[["z", ["lit", None, "float64"]],
                                                                   ["w", F("fill_null", C("f"), ["lit", None, "float64"])]])],
      "result": "v1"}),
]

OPEN += [
    ("K07-const-column-as-const-parameter", ["C19"],
     "a constant *column* (mutate(k=1)) passes the type check for a parameter that must be a constant (shift distance, "
     "round digits), but the backends need a python value: SQL build_query raises TypeError, Polars export ShapeError",
     r"internal-error\|.*(TypeError|ShapeError)", "const_column_as_const_param",
     {"tables": [src([["id", "int64"], ["a", "int64"]], [[1, 5], [2, 6], [3, 7]])],
      "steps": [S(), st("v1", "mutate", "v0", items=[["k", L(1)]]),
                st("v2", "mutate", "v1", items=[["z", F("shift", C("a"), C("k"), arrange=[[C("id"), False, None, 0]])]])],
      "result": "v2"}),
]

FIXED += [
    ("F61-mssql-offset-constant-order", "C19", "MSSQL OFFSET without a renderable ORDER BY term orders by (SELECT NULL)",
     "MSSQL: slice_head(offset>0) without arrange on a table whose first column is a literal (or arranged by a literal "
     "only) raised CompileError: the only ORDER BY term was constant and is not rendered",
     {"tables": [TG], "steps": [S(), st("v1", "mutate", "v0", items=[["zk", L(1)]]),
                                st("v2", "select", "v1", cols=[{"c": "zk"}, {"c": "x"}]),
                                st("v3", "slice_head", "v2", n=2, offset=1)], "result": "v3", "validate": "check"}),
]

FIXED += [
    ("F62-sql-ordered-aggregate-constant-arrange", "C19", "SQL ordered aggregate whose arrange terms are all constant",
     "SQL: str.join(arrange=<literal column>) raised TypeError on SQLite / PostgreSQL and rendered an empty ORDER BY on "
     "MSSQL: the constant ORDER BY terms are dropped and none was left",
     {"tables": [TB], "steps": [S(), st("v1", "mutate", "v0", items=[["zk", L(1)]]),
                                st("v2", "summarize", "v1", items=[["j", F("str.join", C("s"), L(","), arrange=[[C("zk"), False, None, 0]])]])],
      "result": "v2", "validate": "check"}),
]

FIXED += [
    ("F63-sql-union-int-float", "C12", "SQL union of an integer and a float column casts both operands to float",
     "SQLite: union of an Int and a Float column (static type Float) exported Int64 when only integer rows survived: the "
     "operands were not cast to the common type",
     {"tables": [src([["id", "int64"], ["y", "float64"]], [[1, 0.5], [2, 1.5]])],
      "steps": [S(), st("v1", "mutate", "v0", items=[["id", C("y")]]),
                {"out": "v2", "verb": "union", "in": "v0", "right": "v1", "distinct": False},
                st("v3", "filter", "v2", preds=[F("eq", C("y"), L(0.5))]),
                st("v4", "filter", "v3", preds=[F("eq", C("id"), L(1))])], "result": "v4", "validate": "check"}),
    ("F64-sqlite-int-division-decimal", "C12", "SQLite quotient of two integers is a float, not a ten-digit decimal",
     "SQLite: Int / Int was typed NUMERIC by SQLAlchemy: exported as Decimal(38, 10) (ten digits) for a static Float",
     {"tables": [TB], "steps": [S(), st("v1", "mutate", "v0", items=[["z", F("truediv", C("a"), L(3))], ["w", F("truediv", C("a"), C("id"))]])],
      "result": "v1"}),
]

FIXED += [
    ("F21b-polars-rank-order-names", "C05", "polars rank / dense_rank with several ordering expressions over one column",
     "Polars: rank(arrange=[x, x < 2]) raised DuplicateError (struct fields named after the root column)",
     {"tables": [TG], "steps": [S(), st("v1", "mutate", "v0", items=[["w", F("rank", arrange=[[C("x"), False, "last", 0], [F("lt", C("x"), L(2)), False, "last", 0]])]])],
      "result": "v1"}),
]

FIXED += [
    ('F66-sqlite-coalesce-int-float', 'C12', 'SQLite float-typed coalesce / fill_null with an integer argument is cast to float',
     'SQLite: coalesce(int, float) / fill_null (static Float) exported Int64 when the integer argument won on every row',
     json.loads('{"tables": [{"name": "t0", "cols": [["id", "int64"], ["b", "str"], ["d", "datetime"], ["y", "date"]], "rows": [[3, "\\"?\\u00e9_a ", {"$dt": "2000-01-01T00:00:00"}, {"$d": "1970-01-01"}], [1, "^|\\u00fc\\u00fc", null, {"$d": "2100-12-31"}], [6, "_%", {"$dt": "1999-12-31T23:59:59"}, {"$d": "1913-12-14"}], [5, "Z{*()\\u65e5", null, {"$d": "1981-09-02"}], [2, "\\n", null, {"$d": "1970-01-01"}], [4, "Z{*()\\u65e5", null, {"$d": "1964-04-29"}]]}], "steps": [{"out": "v0", "verb": "source", "table": "t0"}, {"out": "v1", "verb": "summarize", "in": "v0", "items": [["x", ["fn", "coalesce", [["fn", "count_star", [], {"filter": [["fn", "is_not_null", [["col", {"c": "id"}]], {}]]}], ["lit", null], ["cast", ["fn", "count_star", [], {}], "float64"], ["fn", "min", [["col", {"c": "id"}]], {}], ["cast", ["fn", "count_star", [], {}], "float64"]], {}]]]}, {"out": "v2", "verb": "mutate", "in": "v1", "items": [["a", ["lit", null, "int64"]]]}, {"out": "v3", "verb": "select", "in": "v2", "cols": [{"c": "x"}]}, {"out": "v4", "verb": "mutate", "in": "v3", "items": [["a", ["col", {"v": "v2", "n": "a"}]]]}], "result": "v4", "validate": "check"}')),
]

FIXED += [
    ("F65-sql-case-int-branch-float", "C12", "SQL CASE with an integer branch and a float type is cast to float",
     "SQLite: when(c).then(float).otherwise(int) (static Float) exported Int64 when the integer branch won on every row",
     {"tables": [src([["id", "int64"], ["f", "float64"], ["c", "bool"]], [[1, 1.5, False], [2, 2.5, False]])],
      "steps": [S(), st("v1", "mutate", "v0", items=[["z", ["case", [[C("c"), C("f")]], C("id")]]])], "result": "v1", "validate": "check"}),
]

FIXED += [
    ('F67-polars-join-int-float-key', 'C06', 'Polars join with an integer key on one side and a float key on the other',
     "Polars: join(on= int_col == float_col) raised SchemaError (datatypes of join keys don't match); SQL accepts it",
     json.loads('{"result": "v8", "steps": [{"out": "v0", "table": "t1", "verb": "source"}, {"in": "v0", "items": [["b_r", ["fn", "min", [["fn", "fill_null", [["lit", -11], ["fn", "add", [["col", {"c": "a"}], ["col", {"n": "a", "v": "v0"}]], {}]], {}]], {"filter": [["fn", "fill_null", [["fn", "gt", [["col", {"n": "a", "v": "v0"}], ["col", {"n": "a", "v": "v0"}]], {}], ["fn", "hany", [["col", {"c": "a"}], ["col", {"n": "a", "v": "v0"}], ["col", {"c": "a"}], ["col", {"n": "a", "v": "v0"}], ["lit", false], ["col", {"n": "a", "v": "v0"}]], {}]], {}], ["fn", "is_not_null", [["col", {"c": "a"}]], {}]]}]]], "out": "v5", "verb": "summarize"}, {"out": "v6", "table": "t0", "verb": "source"}, {"in": "v6", "items": [["b", ["lit", -139.0, "float64"]]], "out": "v7", "verb": "mutate"}, {"how": "inner", "in": "v5", "on": [["fn", "eq", [["col", {"n": "b_r", "v": "v5"}], ["col", {"n": "b", "v": "v7"}]], {}]], "out": "v8", "right": "v7", "verb": "join"}], "tables": [{"cols": [["id", "int64"], ["y", "datetime"], ["c", "datetime"], ["x", "int64"]], "name": "t0", "rows": []}, {"cols": [["id", "int64"], ["x", "str"], ["d", "datetime"], ["a", "bool"]], "name": "t1", "rows": []}]}')),
]

FIXED += [
    ('F68-polars-unstable-row-order', 'C06', 'Polars distinct union and summarize keep a reproducible row order',
     'Polars (intermittent): a left join with a non-equality condition numbers the rows of its lazy input, which is evaluated twice; after a distinct union (unique()) or a grouped summarize the two evaluations could order the rows differently and the right columns were attached to the wrong rows',
     json.loads('{"result": "v19", "steps": [{"out": "v0", "table": "t0", "verb": "source"}, {"distinct": true, "in": "v0", "out": "v5", "right": "v0", "verb": "union"}, {"name": "r", "out": "v11", "table": "t0", "verb": "source"}, {"how": "left", "in": "v5", "on": [["fn", "le", [["col", {"n": "x", "v": "v11"}], ["col", {"n": "id", "v": "v5"}]], {}]], "out": "v12", "right": "v11", "suffix": "_r", "verb": "join"}, {"out": "v13", "table": "t0", "verb": "source"}, {"in": "v13", "out": "v14", "preds": [["fn", "ge", [["col", {"c": "x"}], ["lit", -15]], {}]], "verb": "filter"}, {"how": "left", "in": "v12", "on": [["fn", "le", [["col", {"n": "a", "v": "v5"}], ["col", {"n": "a", "v": "v14"}]], {}]], "out": "v16", "right": "v14", "verb": "join"}, {"in": "v16", "items": [["c", ["fn", "mean", [["col", {"n": "x", "v": "v16"}]], {}]]], "out": "v19", "verb": "summarize"}], "tables": [{"cols": [["id", "int64"], ["x", "int64"], ["a", "datetime"]], "name": "t0", "rows": [[12, -19, {"$dt": "2000-01-01T00:00:00"}], [4, 10, {"$dt": "1999-12-31T23:59:59"}]]}], "intermittent": true}')),
]

FIXED += [
    ('F69-polars-clip-int-float-bounds', 'C03', 'Polars clip of an integer expression with float bounds',
     'Polars: int_expr.clip(-4.75, 338.375) truncated the bounds to integers (-4 instead of -4.75); static type Float, SQLite returns -4.75',
     json.loads('{"result": "v1", "steps": [{"out": "v0", "table": "t0", "verb": "source"}, {"in": "v0", "items": [["c", ["fn", "clip", [["case", [[["col", {"c": "x"}], ["col", {"c": "id"}]]], ["lit", -7]], ["lit", -4.75], ["lit", 338.375]], {}]]], "out": "v1", "verb": "mutate"}], "tables": [{"cols": [["id", "int64"], ["k", "str"], ["y", "float64"], ["x", "bool"]], "name": "t0", "rows": [[1, "", 0.0, false]]}]}')),
]

FIXED += [
    ('F70-sql-shift-int-float-fill', 'C05', 'SQL shift of an integer expression with a float fill value',
     'SQL: shift(int_expr, n, <float literal>) bound the fill value with the integer type of the column: -8240.5 became -8240 (static type Float, Polars keeps -8240.5)',
     json.loads('{"result": "v2", "steps": [{"out": "v0", "table": "t0", "verb": "source"}, {"in": "v0", "keys": [[["lit", -33.5], true, null, 0]], "out": "v1", "verb": "arrange"}, {"in": "v1", "items": [["d", ["fn", "shift", [["fn", "coalesce", [["fn", "clip", [["col", {"n": "id", "v": "v1"}], ["lit", -9655], ["lit", 20]], {}]], {}], ["lit", -1], ["lit", -8240.5]], {"arrange": [[["col", {"c": "id"}], false, null, 0]], "partition_by": [["col", {"c": "d"}], ["col", {"c": "id"}]]}]]], "out": "v2", "verb": "mutate"}], "tables": [{"cols": [["id", "int64"], ["d", "float64"], ["x", "bool"], ["y", "float64"]], "name": "t0", "rows": [[1, 879.0, false, -1.5]]}]}')),
]

FIXED += [
    ('F71-stale-expression-type-memo', 'C07', 'expressions recompute their type when a verb resolves their column references',
     'an aggregate with filter= over a reference held from before an Int/Float union kept the memoised Int type of its CASE: SQL cast the values to BIGINT (6.875 -> 6)',
     json.loads('{"mode": "directed", "result": "v16", "steps": [{"out": "v0", "table": "t1", "verb": "source"}, {"in": "v0", "items": [["x", ["col", {"n": "id", "v": "v0"}]], ["a_t1_1", ["lit", false]]], "out": "v1", "verb": "mutate"}, {"cols": [{"c": "x"}], "in": "v1", "out": "v3", "verb": "drop"}, {"in": "v3", "items": [["h1", ["col", {"n": "x", "v": "v1"}]], ["b_r", ["col", {"n": "a_t1_1", "v": "v1"}]]], "out": "v5", "verb": "mutate"}, {"out": "v6", "table": "t0", "verb": "source"}, {"in": "v6", "items": [["b", ["col", {"c": "id"}]], ["a", ["col", {"c": "b"}]], ["d", ["lit", "."]], ["h1", ["lit", 6.875, "float64"]], ["b_r", ["lit", true]]], "out": "v8", "verb": "mutate"}, {"cols": [{"c": "id"}, {"c": "b"}, {"c": "d"}, {"c": "h1"}, {"c": "c"}, {"c": "a"}, {"c": "b_r"}], "in": "v8", "out": "v9", "verb": "select"}, {"in": "v5", "items": [["a_t1_1", ["lit", 1]]], "out": "v10", "verb": "mutate"}, {"in": "v9", "items": [["a_t1_1", ["lit", 2]]], "out": "v11", "verb": "mutate"}, {"distinct": false, "in": "v10", "out": "v12", "right": "v11", "verb": "union"}, {"add": false, "cols": [{"n": "c", "v": "v1"}], "in": "v12", "out": "v15", "verb": "group_by"}, {"in": "v15", "items": [["p", ["fn", "max", [["col", {"n": "h1", "v": "v5"}]], {"filter": [["col", {"n": "a", "v": "v0"}]]}]]], "out": "v16", "verb": "summarize"}], "tables": [{"cols": [["id", "int64"], ["b", "bool"], ["d", "datetime"], ["k", "datetime"], ["c", "datetime"], ["x", "int64"]], "name": "t0", "rows": [[8, true, {"$dt": "1948-12-02T04:23:25"}, {"$dt": "2000-01-01T00:00:00"}, {"$dt": "1970-01-01T00:00:00"}, 3]]}, {"cols": [["id", "int64"], ["c", "datetime"], ["b", "int64"], ["a", "bool"], ["d", "str"]], "name": "t1", "rows": []}]}')),
]

FIXED += [
    ('F72-floor-ceil-int', 'C12', 'floor / ceil of an integer expression return a float on every backend',
     'floor(<Int expression>) has the static type Float (implicit conversion) but Polars and SQLite returned an integer column',
     json.loads('{"result": "v1", "steps": [{"out": "v0", "table": "t0", "verb": "source"}, {"in": "v0", "items": [["b_r", ["fn", "floor", [["fn", "abs", [["fn", "neg", [["fn", "fill_null", [["col", {"n": "id", "v": "v0"}], ["col", {"n": "id", "v": "v0"}]], {}]], {}]], {}]], {}]]], "out": "v1", "verb": "mutate"}], "tables": [{"cols": [["id", "int64"], ["b", "uint16"], ["x", "bool"], ["d", "float64"]], "name": "t0", "rows": []}], "validate": "check"}')),
]

FIXED += [
    ('F73-sql-empty-select-list', 'C08', 'SQL SELECT around a subquery keeps a selected column when nothing of it is used',
     "SQL: union of two aliased (subquery) summaries followed by summarize(count()) rendered 'SELECT FROM (...)' with an empty select list: only a deselected aggregate column was kept in the subquery",
     json.loads('{"result": "v12", "steps": [{"out": "v0", "table": "t1", "verb": "source"}, {"in": "v0", "items": [["a_t1", ["fn", "sum", [["col", {"n": "b", "v": "v0"}]], {"filter": [["fn", "is_not_null", [["col", {"c": "c"}]], {}]]}]]], "out": "v4", "verb": "summarize"}, {"in": "v4", "items": [["a", ["fn", "sum", [["col", {"n": "a_t1", "v": "v4"}]], {}]], ["x", ["fn", "count_star", [], {}]]], "out": "v6", "verb": "summarize"}, {"cols": [{"n": "a", "v": "v6"}], "in": "v6", "out": "v8", "verb": "drop"}, {"cols": [{"c": "x"}], "in": "v6", "out": "v10", "verb": "select"}, {"distinct": false, "in": "v8", "out": "v11", "right": "v10", "verb": "union"}, {"in": "v11", "items": [["q", ["fn", "count_star", [], {}]]], "out": "v12", "verb": "summarize"}], "tables": [{"cols": [["id", "int64"], ["c", "int64"], ["b", "float64"], ["x", "date"], ["d", "date"]], "name": "t1", "rows": []}]}')),
]

FIXED += [
    ('F74-sqlite-clip-int-float-bounds', 'C12', 'SQLite float-typed clip of an integer expression is cast to float',
     'SQLite: clip(<Int expression>, -18.5, 273.625) (static Float) exported Int64 when the value lay between the bounds',
     json.loads('{"result": "v6", "steps": [{"out": "v0", "table": "t0", "verb": "source"}, {"in": "v0", "items": [["a_r", ["fn", "clip", [["fn", "fill_null", [["fn", "sum", [["col", {"n": "d", "v": "v0"}]], {}], ["fn", "clip", [["fn", "count_star", [], {}], ["lit", -2], ["lit", 7]], {}]], {}], ["lit", -18.5], ["lit", 273.625]], {}]]], "out": "v6", "verb": "summarize"}], "tables": [{"cols": [["id", "int64"], ["d", "bool"], ["y", "int64"]], "name": "t0", "rows": []}], "validate": "check"}')),
]

FIXED += [
    ('F75-sql-union-cast-leaks-into-where', 'C07', 'the float cast of an Int/Float SQL union applies to the select list of the operands only',
     'SQL (regression of F63): the CAST AS DOUBLE of an Int/Float union column was also used by the WHERE clause of the operand: x // 10 became FLOOR(CAST(..)/10), which fails on SQLite',
     json.loads('{"result": "v8", "steps": [{"out": "v0", "table": "t1", "verb": "source"}, {"in": "v0", "items": [["x", ["col", {"n": "a", "v": "v0"}]]], "out": "v1", "verb": "mutate"}, {"in": "v1", "out": "v4", "preds": [["fn", "lt", [["col", {"n": "id", "v": "v1"}], ["fn", "floordiv", [["col", {"c": "x"}], ["lit", 10]], {}]], {}]], "verb": "filter"}, {"in": "v0", "items": [["d", ["lit", "a"]]], "out": "v6", "verb": "mutate"}, {"in": "v4", "items": [["d", ["lit", "a"]]], "out": "v7", "verb": "mutate"}, {"distinct": true, "in": "v6", "out": "v8", "right": "v7", "verb": "union"}], "tables": [{"cols": [["id", "int64"], ["a", "int64"], ["x", "float64"]], "name": "t1", "rows": [[1, null, null]]}]}')),
]

FIXED += [
    ('F76-postgres-lenient-cast-const-or-generic-int', 'C19', 'Postgres non-strict cast handles constant and generic Int types',
     'PostgreSQL: cast(..., strict=False) between integer types raised ValueError from build_query when the source type was Const-wrapped (a literal or constant column) or either type was the generic Int: the bit width was parsed from the class name',
     json.loads('{"cast_cell": ["lit_int", "Int8", false, "postgresql"]}')),
]

FIXED += [
    ('F77-const-null-column-vs-string-in-union', 'C07', 'a constant null column unifies with a String / Enum / Decimal column',
     "union(mutate(k=None), mutate(k='r')) raised TypeError (incompatible types const NullType / const String): lca_type filtered NullType before unwrapping Const; non-constant nulls and numeric types were accepted",
     json.loads('{"result": "v3", "steps": [{"out": "v0", "table": "t0", "verb": "source"}, {"in": "v0", "items": [["k", ["lit", null]]], "out": "v1", "verb": "mutate"}, {"in": "v0", "items": [["k", ["lit", "r"]]], "out": "v2", "verb": "mutate"}, {"distinct": false, "in": "v1", "out": "v3", "right": "v2", "verb": "union"}], "tables": [{"cols": [["id", "int64"], ["a", "int64"]], "name": "t0", "rows": [[1, 5], [2, null]]}]}')),
]

FIXED += [
    ('F78-polars-shift-float-fill-lazy-schema', 'C07', 'Polars shift of an integer expression with a float fill value is cast to float',
     'Polars: the union of an integer column with shift(<int expr>, n, <float fill>) raised SchemaError: Polars computes the shift as Float64 but the lazy schema reports the integer type, so the union skipped the cast to the common type (thorough run 6)',
     json.loads('{"mode": "directed", "result": "v13", "steps": [{"out": "v0", "table": "t0", "verb": "source"}, {"in": "v0", "items": [["p", ["fn", "shift", [["fn", "hmax", [["lit", 0], ["col", {"n": "c", "v": "v0"}]], {}], ["lit", -1], ["lit", 10.0]], {"arrange": [[["col", {"n": "b", "v": "v0"}], false, "first", 1], [["col", {"c": "id"}], false, null, 0]]}]]], "out": "v1", "verb": "mutate"}, {"cols": [{"c": "id"}, {"c": "b"}, {"c": "c"}], "in": "v1", "out": "v6", "verb": "select"}, {"in": "v1", "items": [["c", ["col", {"c": "p"}]]], "out": "v9", "verb": "mutate"}, {"cols": [{"c": "c"}, {"c": "b"}, {"c": "id"}], "in": "v9", "out": "v10", "verb": "select"}, {"in": "v6", "items": [["b_r", ["lit", 1]]], "out": "v11", "verb": "mutate"}, {"in": "v10", "items": [["b_r", ["lit", 2]]], "out": "v12", "verb": "mutate"}, {"distinct": true, "in": "v11", "out": "v13", "right": "v12", "verb": "union"}], "tables": [{"cols": [["id", "int64"], ["b", "float64"], ["c", "int64"]], "name": "t0", "rows": []}]}')),
]

FIXED += [
    ('F79-rename-two-columns-same-new-name', 'C14', 'rename refuses two columns mapped to the same new name',
     "rename({'a': 'z', 'b': 'z'}) was accepted: the duplicate check compared the new names only with the columns that are not renamed; one column was lost from the table's names and the Polars export raised DuplicateError (reported by a batch-6 sub-agent; C14 offender rename_dup_new)",
     json.loads('{"tables": [{"name": "t0", "cols": [["id", "int64"], ["x", "datetime"], ["b", "bool"]], "rows": [[1, null, false], [2, null, false], [3, null, false], [4, null, false], [5, null, true], [6, null, false], [7, null, false]]}], "steps": [{"out": "v0", "verb": "source", "table": "t0"}], "result": "v0", "validate": "check", "mode": "reject", "offender": {"kind": "verb", "which": "rename_dup_new", "expect": "ValueError", "anycol": ["col", {"v": "v0", "n": "id"}]}}')),
]

FIXED += [
    ('F80-round-int-negative-decimals-float', 'C12', 'round of an integer expression to negative decimals returns an integer',
     'x.round(-2) of an Int column has the static type Int but was exported as Float64 on Polars and SQLite (divide, round, multiply); found while confirming the seeded change C01-m12: the generators only used non-negative decimals',
     json.loads('{"result": "v1", "steps": [{"out": "v0", "table": "t0", "verb": "source"}, {"in": "v0", "items": [["r", ["fn", "round", [["col", {"c": "a"}], ["lit", -2]], {}]]], "out": "v1", "verb": "mutate"}], "tables": [{"cols": [["id", "int64"], ["a", "int64"]], "name": "t0", "rows": [[1, 1351], [2, -1251], [3, null], [4, 26]]}], "validate": "check"}')),
]

FIXED += [
    ('F81-floordiv-floor-of-untyped-null-column', 'C01', 'floordiv, floor and ceil of an untyped null literal column',
     'mutate(q=None) >> mutate(r=C.q // 3) (also floor / ceil on Polars) failed at export on both backends: Polars has no abs / floor for the Null dtype, SQLAlchemy emitted FLOOR(NULL / 3) for the untyped operand, which its FLOOR function for SQLite cannot evaluate (thorough run 7, null tag columns of unions)',
     json.loads('{"result": "v7", "steps": [{"out": "v0", "table": "t1", "verb": "source"}, {"in": "v0", "items": [["q", ["lit", null]]], "out": "v4", "verb": "mutate"}, {"in": "v4", "items": [["a_r", ["fn", "floordiv", [["col", {"n": "q", "v": "v4"}], ["lit", 3]], {}]]], "out": "v7", "verb": "mutate"}], "tables": [{"cols": [["id", "int64"], ["y", "bool"], ["c", "bool"]], "name": "t1", "rows": [[1, null, true]]}]}')),
]

FIXED += [
    ('F82-polars-shift-wider-fill-lazy-schema', 'C07', 'Polars shift with a fill value wider than the shifted expression',
     'Polars: the union of a Float32 column with shift(<Float32>, n, <float literal>) raised SchemaError: Polars computes the shift in the wider type but the lazy schema reports the type of the shifted expression (same family as F78; thorough run 7)',
     json.loads('{"result": "v9", "steps": [{"out": "v0", "table": "t0", "verb": "source"}, {"in": "v0", "items": [["p", ["col", {"c": "id"}]], ["b_t1", ["cast", ["fn", "fill_null", [["col", {"n": "k", "v": "v0"}], ["col", {"c": "k"}]], {}], "datetime"]]], "out": "v1", "verb": "mutate"}, {"in": "v1", "items": [["d", ["col", {"n": "b", "v": "v1"}]], ["a_t1", ["col", {"n": "y", "v": "v0"}]]], "out": "v3", "verb": "mutate"}, {"in": "v3", "items": [["b_r", ["cast", ["col", {"n": "k", "v": "v1"}], "datetime"]], ["c", ["fn", "shift", [["col", {"n": "y", "v": "v1"}], ["lit", 3], ["lit", -18.0]], {"arrange": [[["cast", ["col", {"n": "p", "v": "v1"}], "float64"], true, "first", 1], [["col", {"c": "id"}], true, null, 0]], "partition_by": [["col", {"n": "b", "v": "v3"}], ["col", {"n": "id", "v": "v0"}]]}]]], "out": "v4", "verb": "mutate"}, {"name": "r", "out": "v5", "table": "t0", "verb": "source"}, {"in": "v5", "items": [["p", ["col", {"n": "y", "v": "v5"}]], ["b_t1", ["lit", {"$dt": "1901-02-16T06:16:47"}]], ["d", ["lit", null, "str"]], ["a_t1", ["col", {"c": "y"}]], ["b_r", ["lit", {"$dt": "1900-01-01T00:00:00"}]], ["c", ["col", {"n": "y", "v": "v5"}]]], "out": "v7", "verb": "mutate"}, {"distinct": false, "in": "v4", "out": "v9", "right": "v7", "verb": "union"}], "tables": [{"cols": [["id", "int64"], ["b", "str"], ["k", "date"], ["y", "float32"]], "name": "t0", "rows": []}]}')),
]

FIXED += [
    ('F83-sql-union-null-first-operand-type', 'C12', 'SQL union result column of an untyped null literal takes the type of the right operand',
     "SQLite: union(<Int aggregate>, <column of mutate(y=None) >> union(mutate(y=1.5))>) exported Int64 for the static Float column: the inner union's column was NullType-typed (taken from its first operand), so the outer Int/Float union was not cast (thorough run 7, mixed-type tag columns)",
     json.loads('{"result": "v16", "steps": [{"out": "v0", "table": "t1", "verb": "source"}, {"name": "r", "out": "v1", "table": "t0", "verb": "source"}, {"in": "v1", "items": [["b", ["lit", {"$dt": "2000-02-29T00:00:00"}]], ["a", ["lit", "*b"]], ["x", ["lit", "\\t{x-{_"]], ["d", ["lit", -50.0]], ["k", ["lit", -35.625]]], "out": "v3", "verb": "mutate"}, {"cols": [{"c": "b"}, {"c": "id"}, {"c": "k"}, {"c": "x"}, {"c": "a"}, {"c": "d"}], "in": "v3", "out": "v4", "verb": "select"}, {"in": "v0", "items": [["y", ["lit", null]]], "out": "v5", "verb": "mutate"}, {"in": "v4", "items": [["y", ["lit", 1.5]]], "out": "v6", "verb": "mutate"}, {"distinct": false, "in": "v5", "out": "v7", "right": "v6", "verb": "union"}, {"add": false, "cols": [{"n": "y", "v": "v5"}], "in": "v7", "out": "v8", "verb": "group_by"}, {"in": "v8", "items": [["b_r", ["fn", "count_star", [], {}]]], "out": "v9", "verb": "summarize"}, {"in": "v9", "items": [["c", ["fn", "min", [["map", ["lit", "^.|+ZZ"], [[[["lit", "\'"]], ["lit", 15]]], ["col", {"n": "b_r", "v": "v9"}]]], {}]], ["y", ["fn", "count", [["col", {"n": "y", "v": "v9"}]], {}]]], "out": "v11", "verb": "summarize"}, {"in": "v8", "out": "v13", "verb": "ungroup"}, {"in": "v13", "items": [["c", ["col", {"n": "id", "v": "v13"}]]], "out": "v14", "verb": "mutate"}, {"cols": [{"c": "y"}, {"c": "c"}], "in": "v14", "out": "v15", "verb": "select"}, {"distinct": false, "in": "v11", "out": "v16", "right": "v15", "verb": "union"}], "tables": [{"cols": [["id", "int64"], ["y", "bool"], ["c", "date"]], "name": "t0", "rows": []}, {"cols": [["id", "int64"], ["b", "datetime_ms"], ["a", "str"], ["x", "str"], ["d", "int64"], ["k", "float64"]], "name": "t1", "rows": []}], "validate": "check"}')),
]


def main():
    log = subprocess.run(["git", "-C", "/repo", "log", "--format=%h %s"], capture_output=True, text=True).stdout.splitlines()

    def commit_for(frag):
        for line in log:
            if frag in line and line.split()[1] == "fix:":
                return line.split()[0]
        raise SystemExit(f"no fix commit matching {frag!r}")

    findings = []
    for fid, prop, frag, what, case in FIXED:
        c = commit_for(frag)
        with open(os.path.join(HERE, fid + ".json"), "w") as f:
            json.dump({"case": case}, f, indent=1)
        findings.append({"id": fid, "property": prop, "status": "fixed", "commit": c, "what": what,
                         "witness": f"findings/{fid}.json", "record": f"fixed: property={prop} {c} {what}",
                         "signature": ".*", "matcher": "always"})
    for fid, props, what, sig, matcher, case in OPEN:
        with open(os.path.join(HERE, fid + ".json"), "w") as f:
            json.dump({"case": case}, f, indent=1)
        for prop in props:
            findings.append({"id": fid, "property": prop, "status": "open", "what": what, "witness": f"findings/{fid}.json",
                             "signature": sig, "matcher": matcher})
    with open(os.path.join(os.path.dirname(HERE), "known_findings.json"), "w") as f:
        json.dump({"findings": findings}, f, indent=1)
    print(len(findings), "entries")


if __name__ == "__main__":
    main()
