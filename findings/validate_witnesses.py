#!/venv/bin/python
"""Maintainer script: every 'fixed' witness must fail on the parent of its fix commit and pass on
the current tree (generic pipeline oracle: reference + Polars + SQLite + differential).
Usage: validate_witnesses.py [ids...]   (uses scratch worktrees under /var/tmp, removed afterwards)"""
import json
import os
import subprocess
import sys

HERE = os.path.dirname(os.path.abspath(__file__))
ROOT = os.path.dirname(HERE)

CHILD = r'''
import json, sys
sys.path.insert(0, %r)
from pdtverif import env
env.quiet()
from pdtverif.runner import Outcome
from pdtverif.pipeline_oracle import examine_pipeline
case = json.load(open(sys.argv[1]))["case"]
out = Outcome()
try:
    examine_pipeline(case, out, ref_compare=True, differential=True, localize=False)
except Exception as ex:
    print("RESULT", json.dumps({"harness": repr(ex)[:300]})); sys.exit(0)
print("RESULT", json.dumps({"failures": [f.sig() for f in out.failures], "discard": out.discard}))
''' % ROOT


def run_check_replay(tree, prop, witness):
    env = dict(os.environ, PYTHONPATH=os.path.join(tree, "src"), PDT_REPO=tree, PYTHONHASHSEED="0")
    r = subprocess.run(["/venv/bin/python", os.path.join(ROOT, "run_check.py"), prop, "--replay", witness],
                       capture_output=True, text=True, env=env)
    if r.returncode == 1:
        return {"failures": [l for l in r.stdout.splitlines() if l.startswith("FAILURE")][:3] or ["exit 1"]}
    if r.returncode == 0:
        return {"failures": [], "discard": None}
    return {"harness": (r.stderr or r.stdout)[-300:]}


def run(tree, witness, prop=None):
    wcase = json.load(open(witness)).get("case", {})
    if "steps" not in wcase or wcase.get("validate") == "check":
        return run_check_replay(tree, prop, witness)
    env = dict(os.environ, PYTHONPATH=os.path.join(tree, "src"), PDT_REPO=tree, PYTHONHASHSEED="0")
    r = subprocess.run(["/venv/bin/python", "-c", CHILD, witness], capture_output=True, text=True, env=env)
    for line in r.stdout.splitlines():
        if line.startswith("RESULT "):
            return json.loads(line[7:])
    return {"harness": (r.stderr or r.stdout)[-400:]}


def main():
    only = set(sys.argv[1:])
    findings = json.load(open(os.path.join(ROOT, "known_findings.json")))["findings"]
    ok = True
    for kf in findings:
        if kf["status"] != "fixed" or (only and kf["id"] not in only):
            continue
        w = os.path.join(ROOT, kf["witness"])
        wt = f"/var/tmp/pdt-wt-{kf['commit']}"
        subprocess.run(["git", "-C", "/repo", "worktree", "add", "--detach", "-f", wt, kf["commit"] + "^"],
                       capture_output=True, text=True)
        try:
            before = run(wt, w, kf["property"])
            # a defect that depends on the engine's scheduling (marked "intermittent") gets more attempts
            tries = 1
            while not before.get("failures") and json.load(open(w)).get("case", {}).get("intermittent") and tries < 15:
                before = run(wt, w, kf["property"])
                tries += 1
        finally:
            subprocess.run(["git", "-C", "/repo", "worktree", "remove", "--force", wt], capture_output=True)
        after = run("/repo", w, kf["property"])
        good = bool(before.get("failures")) and after.get("failures") == [] and (not after.get("discard") or str(after.get("discard")).startswith("ref-reject:")) and "harness" not in after
        ok &= good
        print(("OK  " if good else "BAD "), kf["id"], kf["commit"], "| before:", before.get("failures") or before, "| after:", after)
    return 0 if ok else 1


if __name__ == "__main__":
    sys.exit(main())
