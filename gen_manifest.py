#!/venv/bin/python
"""Regenerates MANIFEST.json from the check modules that exist (keeps it valid at all times)."""
import json, os, sys
sys.path.insert(0, os.path.dirname(os.path.abspath(__file__)))
HERE = os.path.dirname(os.path.abspath(__file__))
from manifest_data import CHECKS, NOT_APPLICABLE, HOOK_COMMITS

props = [json.loads(l) for l in open(os.path.join(HERE, "properties.jsonl"))]
ids = [p["id"] for p in props]
checks = []
for pid in ids:
    if pid not in CHECKS:
        continue
    c = CHECKS[pid]
    if not os.path.exists(os.path.join(HERE, "pdtverif", "checks", pid.lower() + ".py")):
        continue
    checks.append({
        "property_id": pid,
        "quick_cmd": f"/venv/bin/python run_check.py {pid} --tier quick",
        "thorough_cmd": f"/venv/bin/python run_check.py {pid} --tier thorough",
        "evidence_file": f"/verif/evidence/{pid}.json",
        "replay_cmd_template": f"/venv/bin/python run_check.py {pid} --replay {{path}}",
        "engine": "pdtverif",
        "level_claimed": {"category": "exploration", "text": c["text"], "design_ref": c["design_ref"]},
        "level_note": c["note"],
        "technique": c["technique"],
    })
claimed = {c["property_id"] for c in checks}
na = [{"property_id": pid, "reason": NOT_APPLICABLE.get(pid, "check not built yet in this session; no claim is made")}
      for pid in ids if pid not in claimed]
m = {
    "version": 1,
    "setup_cmd": "/venv/bin/python -c 'import hypothesis' 2>/dev/null || /venv/bin/pip install --no-index --find-links /opt/veriftools/wheels hypothesis",
    "hooks": {
        "guard": "PYDIVERSE_TRANSFORM_VERIF",
        "enable": "no hooks are needed: every observation goes through the public API plus read-only inspection of _ast/_cache; checks import pydiverse.transform editable from /repo/src",
        "baseline_off_cmd": "cd /repo && /venv/bin/python -m pytest -ra -q -p no:cacheprovider --timeout=900 --continue-on-collection-errors",
        "source_commits": HOOK_COMMITS,
        "add_only": True,
    },
    "engines": [{"name": "pdtverif", "path": "/verif/pdtverif", "serves_properties": sorted(claimed),
                 "kind_free_text": "Hypothesis-driven generated-input search over a JSON case IR with a reference interpreter, differential Polars/SQLite execution, offline PostgreSQL/MSSQL compilation and complete enumeration of finite spaces"}],
    "checks": checks,
    "not_applicable": na,
    "notes": "See DESIGN.md. Exit codes: 0 held, 1 VIOLATION line printed, 2 harness error. known_findings.json lists fixed and open findings.",
}
json.dump(m, open(os.path.join(HERE, "MANIFEST.json"), "w"), indent=1)
print("claimed", sorted(claimed))
