#!/bin/bash
# seed sweep of the quick tier on the unchanged tree: every check must stay silent
cd "$(dirname "$0")"
for s in "$@"; do
  for c in C01 C02 C03 C04 C05 C06 C07 C08 C09 C10 C11 C12 C14 C15 C16 C17 C18 C19 C20; do
    VERIF_SEED=$s timeout 1200 /venv/bin/python run_check.py $c --tier quick 2>&1 | grep "VIOLATION\|^C[012]\|HARNESS\|signature:" | cut -c1-400
  done
done
