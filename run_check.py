#!/venv/bin/python
"""CLI: run_check.py <ID> [--tier quick|thorough] [--replay FILE]
exit 0: property held on everything explored; 1: VIOLATION line(s) printed; 2: harness error."""
import argparse
import os
import sys
import traceback

os.environ.setdefault("PYTHONHASHSEED", "0")
sys.path.insert(0, os.path.dirname(os.path.abspath(__file__)))


def main():
    ap = argparse.ArgumentParser()
    ap.add_argument("check_id")
    ap.add_argument("--tier", default=os.environ.get("VERIF_TIER", "quick"), choices=["quick", "thorough"])
    ap.add_argument("--replay")
    a = ap.parse_args()
    try:
        from pdtverif import checks, env

        chk = checks.load(a.check_id.upper())
        return chk.main(a.tier, env.seed_base(), a.replay)
    except Exception:
        traceback.print_exc()
        print(f"HARNESS-ERROR property={a.check_id}")
        return 2


if __name__ == "__main__":
    sys.exit(main())
