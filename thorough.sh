#!/bin/bash
# thorough tier of every check on the unchanged tree (maintainer script): every check must stay silent
cd "$(dirname "$0")"
for c in "$@"; do
  VERIF_SEED=${VERIF_SEED:-1} timeout 3000 /venv/bin/python run_check.py $c --tier thorough 2>&1 | grep "VIOLATION\|^C[012]\|HARNESS\|signature:\|KNOWN" | cut -c1-400
done
